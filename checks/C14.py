"""C14 -- duplicate and replace produce faithful, independent copies.

Engine P (selectors): tree recipe, original registered or detached, twins registered
or not, operation (duplicate / ASTNode.replace / dataclasses.replace) and changed fields.
"""
from __future__ import annotations

import dataclasses
from typing import Any

from models.shapes import all_shapes
from models.zoo import CLASSES, R, build, describe, kids_of, node_at, positions_of, reset_all
from vcheck.core import Family, Spec

ID = "C14"
FUNCTIONS = ["pyoak.node:ASTNode.duplicate", "pyoak.node:ASTNode.replace", "pyoak.node:ASTNode.__post_init__", "pyoak.node:_get_next_unique_id"]


def _all_nodes(recipe, root):
    return [(p, node_at(root, p)) for p in positions_of(recipe)]


def _shared_variants():
    S = R("VMany", {}, "a", items=(R("VLeaf", {"v": 8}), R("VLeaf", {"v": 9}, "b")))
    return [
        (R("VMixed", {"v": 1}, first=S, items=(S,), one=None), True),
        (R("VAbAc", ab=S, ac=S), True),
        (R("VMany", items=(R("VNonCmp", {"v": 1, "note": "hidden"}, "a"), R("VNonInit", {"v": 2}), R("VRich", {"i": 3, "s": "x", "hidden": "h", "t": (1, 2)}, "xml"))), False),
        (R("VInh", {"v": 2}, "multi", first=R("VReq", {}, "gen", child=R("VLeaf", {"v": 1}, "c")), items=(), one=None, extra=R("VLeaf", {"v": 1}, "c")), False),
        (R("VMany", items=(R("VNonCmp", {"v": 1, "note": "first"}), R("VNonCmp", {"v": 1, "note": "second"}))), "stale-twin"),
        (R("VMany", items=(R("VReq", child=R("VReq", child=R("VLeaf", {"v": 1}, "a"))), R("VReq", child=R("VReq", child=R("VLeaf", {"v": 1}, "b"))))), "stale-twin"),
    ]


def make_duplicate_harness(cases, prepare=None):
    def harness(e):
        from pyoak.node import NODE_REGISTRY, ASTNode

        reset_all()
        extra_info: dict[str, Any] = {}
        local_cases = cases
        if prepare is not None:
            shapes_, extra_info = prepare(e)
            local_cases = [(s_, False) for s_ in shapes_]
        cno = e.choice(len(local_cases), "tree")
        recipe, shared = local_cases[cno]
        if shared is False and e.flag("last_leaf_falsy"):
            from models.shapes import falsify

            recipe = falsify(recipe)
        twins = e.flag("twins_registered")

        def construct():
            if shared == "stale-twin":
                # two different objects sharing one id inside one tree: the first was detached before
                # its twin (equal class / origin / comparable content / direct children) was built
                from models.zoo import VMany

                a = build(dict(recipe[3])["items"][0])
                a.detach_self()
                b = build(dict(recipe[3])["items"][1])
                return VMany(items=(a, b))
            return build(recipe, {} if shared else None)

        keep = [construct()] if twins else []
        root = construct()
        detached = e.pick(["registered", "detached", "root-detached-only"], "original_state")
        if detached == "detached":
            root.detach()
        elif detached == "root-detached-only":
            root.detach_self()
        orig = _all_nodes(recipe, root)
        orig_ids_registered = {n.id for _, n in orig if ASTNode.get_any(n.id) is n}
        orig_objs = {id(n) for _, n in orig}
        orig_registered_objs = {id(n) for _, n in orig if ASTNode.get_any(n.id) is n}
        before = set(NODE_REGISTRY.keys())
        copy = root.duplicate()
        scenario = {"tree": describe(recipe), "shared_subtree": shared, "twins": twins, "original": detached, **extra_info}
        if not (copy == root) or copy.content_id != root.content_id:
            e.fail("duplicate-not-equal-to-original", scenario=scenario)
        new_nodes = _all_nodes(recipe, copy)
        seen_new = set()
        for (p, c), (_, o) in zip(new_nodes, orig):
            where = str(p)
            if type(c) is not type(o) or c.content_id != o.content_id or c.origin != o.origin:
                scenario.update(at=where)
                e.fail("duplicate-position-differs", scenario=scenario)
            for f in dataclasses.fields(o):
                if f.name in ("id", "content_id") or f.name in [k for k, _ in _sub(recipe, p)[3]]:
                    continue
                if getattr(c, f.name) != getattr(o, f.name):
                    scenario.update(at=where, field=f.name)
                    e.fail("duplicate-property-differs", scenario=scenario)
            if id(c) in orig_objs:
                scenario.update(at=where)
                e.fail("duplicate-reuses-an-original-object", scenario=scenario)
            if ASTNode.get_any(c.id) is not c:
                scenario.update(at=where)
                e.fail("duplicated-node-not-registered", scenario=scenario)
            if c.id in orig_ids_registered:
                scenario.update(at=where, id=c.id)
                e.fail("duplicate-id-used-by-a-registered-original", scenario=scenario)
            seen_new.add(id(c))
        # the original is left as it was
        for _, o in orig:
            if (ASTNode.get_any(o.id) is o) != (id(o) in orig_registered_objs):
                e.fail("duplicate-changed-registration-of-original", scenario=scenario)
        _ = before, keep
        e.distinct((cno, twins, detached, tuple(extra_info.values())))
        return scenario

    return harness


def _sub(recipe, path):
    from models.zoo import sub_recipe

    return sub_recipe(recipe, path)


# candidate changes per class: (label, kwargs builder, comparable?)
def _changes(node) -> list[tuple[str, dict[str, Any], bool]]:
    from models.zoo import VLeaf

    cls = type(node).__name__
    out: list[tuple[str, dict[str, Any], bool]] = []
    if hasattr(node, "v") and cls != "VRich":
        out.append(("v", {"v": node.v + 100}, True))
        out.append(("v-same", {"v": node.v}, False))
    if cls == "VNonCmp":
        out.append(("note", {"note": "changed"}, False))
        out.append(("v+note", {"v": node.v + 1, "note": "both"}, True))
    if cls == "VTyped":
        out.append(("i", {"i": 41}, True))
        out.append(("nc", {"nc": 5}, False))
        out.append(("t", {"t": (9,)}, True))
    if cls == "VRich":
        out.append(("hidden", {"hidden": "changed"}, False))
        out.append(("s+i", {"s": "new", "i": 77}, True))
    if cls in ("VMixed", "VInh"):
        out.append(("items", {"items": (VLeaf(v=501), VLeaf(v=502))}, True))
        out.append(("one", {"one": VLeaf(v=503)}, True))
        out.append(("first+v", {"first": VLeaf(v=504), "v": 9}, True))
        out.append(("items-empty", {"items": ()}, True))
    if cls == "VMany":
        out.append(("items", {"items": (VLeaf(v=505),)}, True))
    if cls in ("VMixed", "VInh") and type(node.first).__name__ == "VReq":
        # same content and same own origin as the current child, another origin one level further down:
        # the new parent has the id pre-image of the old one without being == to it
        from models.zoo import VReq, origin

        out.append(("first-same-content-origin-differs-below", {"first": VReq(child=dataclasses.replace(node.first.child, origin=origin("b")))}, True))
    if cls in ("VMixed", "VInh"):
        out.append(("first-equal-copy", {"first": node.first.duplicate()}, True))
        out.append(("items-equal-copies", {"items": tuple(c.duplicate() for c in node.items)}, True))
    if hasattr(node, "v") and cls != "VRich" and node.v == 1:
        out.append(("v-equal-value-of-another-type", {"v": True}, True))
    out.append(("origin", {"origin": "<origin b>"}, False))
    out.append(("nothing", {}, False))
    return out


REPLACE_BASES = [
    R("VLeaf", {"v": 1}), R("VLeaf", {"v": 1}, "a"), R("VNonCmp", {"v": 1, "note": "n"}), R("VRich", {"i": 1, "s": "s", "hidden": "h"}, "a"),
    R("VMixed", {"v": 1}, first=R("VLeaf", {"v": 2}), items=(R("VLeaf", {"v": 3}), R("VSubLeaf", {"v": 4})), one=None),
    R("VInh", {"v": 1}, "b", first=R("VLeaf", {"v": 2}), items=(), one=R("VLeaf", {"v": 5}), extra=R("VLeaf", {"v": 6})),
    R("VMany", items=(R("VLeaf", {"v": 7}), R("VLeaf", {"v": 7}, "a"))), R("VNonInit", {"v": 3}),
    R("VMixed", {"v": 1}, first=R("VReq", child=R("VLeaf", {"v": 2})), items=(), one=None),
    # property values that are containers (a mapping, nested tuples, a frozenset): untouched ones stay the very same objects
    R("VTyped", {"a": {"k": [1, 2], "m": {"n": 3}}, "t": (7, 8), "nc": 4}, "a"),
]


def replace_harness(e):
    from models.zoo import origin
    from pyoak.node import NODE_REGISTRY, ASTNode

    reset_all()
    bno = e.choice(len(REPLACE_BASES), "base")
    recipe = REPLACE_BASES[bno]
    n_twins = e.pick([0, 1, 2], "twins_registered")
    twins = n_twins > 0
    twin_first = e.flag("twin_created_first") if twins else False
    keep = [build(recipe) for _ in range(n_twins)] if (twins and twin_first) else []
    node = build(recipe)
    if twins and not twin_first:
        keep = [build(recipe) for _ in range(n_twins)]
    if twins and twin_first and e.flag("lowest_twin_detached_before_the_replace"):
        # frees the lowest id of the family while a higher one stays in use
        keep[0].detach_self()
    state = e.pick(["registered", "detached", "detached-then-twin-built"], "original_state")
    if state != "registered":
        node.detach_self()
    if state == "detached-then-twin-built":
        # the twin takes over the id the original gave up
        keep.append(build(recipe))
    keep_registered = [(t, t.id) for t in keep if ASTNode.get_any(t.id) is t]
    changes = _changes(node)
    label, kw, comparable = changes[e.choice(len(changes), "change")]
    if "origin" in kw:
        kw = {"origin": origin("b")}
    op = e.pick(["ASTNode.replace", "dataclasses.replace"], "operation")
    was_registered = ASTNode.get_any(node.id) is node
    old_id = node.id
    scenario = {"base": describe(recipe), "twins": n_twins, "twin_first": twin_first, "lowest_twin_detached": bool(keep and ASTNode.get_any(keep[0].id) is not keep[0]), "original": state, "change": label, "operation": op}
    new = node.replace(**kw) if op == "ASTNode.replace" else dataclasses.replace(node, **kw)
    if type(new) is not type(node) or new is node:
        e.fail("replace-result-not-a-new-node-of-the-same-class", scenario=scenario)
    for f in dataclasses.fields(node):
        if f.name in ("id", "content_id") or not f.init:
            continue
        if f.name in kw:
            if getattr(new, f.name) is not kw[f.name]:
                scenario.update(field=f.name)
                e.fail("changed-field-does-not-hold-the-given-value", scenario=scenario)
        elif getattr(new, f.name) is not getattr(node, f.name):
            scenario.update(field=f.name)
            e.fail("unchanged-field-is-not-the-same-object", scenario=scenario)
    if ASTNode.get_any(new.id) is not new:
        e.fail("new-node-not-registered", scenario=scenario)
    if op == "ASTNode.replace":
        if ASTNode.get_any(old_id) is node:
            e.fail("ASTNode.replace-left-original-registered", scenario=scenario)
        # the id a fresh construction with the original absent would get
        init_kw = {f.name: getattr(new, f.name) for f in dataclasses.fields(new) if f.init}
        snapshot = dict(NODE_REGISTRY)
        NODE_REGISTRY.pop(new.id, None)
        probe = type(new)(**init_kw)
        want_id = probe.id
        NODE_REGISTRY.clear()
        NODE_REGISTRY.update(snapshot)
        del probe
        if new.id != want_id:
            scenario.update(new_id=new.id, fresh_construction_id=want_id)
            e.fail("replace-id-differs-from-fresh-construction", scenario=scenario)
        if not comparable and "origin" not in kw and not twins and was_registered and new.id != old_id:
            scenario.update(new_id=new.id, old_id=old_id)
            e.fail("replace-of-non-comparable-field-did-not-keep-the-id", scenario=scenario)
    else:
        if was_registered and ASTNode.get_any(old_id) is not node:
            e.fail("dataclasses.replace-unregistered-the-original", scenario=scenario)
        if was_registered and new.id == old_id:
            e.fail("dataclasses.replace-reused-the-registered-original-id", scenario=scenario)
    for t, tid in keep_registered:
        if ASTNode.get_any(tid) is not t or t.id != tid:
            scenario.update(twin_id=tid)
            e.fail("replace-unregistered-or-renamed-another-node", scenario=scenario)
    if state == "detached-then-twin-built" and op == "ASTNode.replace":
        pass
    del keep
    e.distinct((bno, n_twins, twin_first, scenario["lowest_twin_detached"], state, label, op))
    return scenario


_DEFKID: dict[str, Any] = {}


def node_default_harness(e):
    """A child field whose class-level DEFAULT is a node (frozen, hashable: a legal dataclass default
    such as an empty block): an original that still holds the default gets it copied like any other child."""
    import dataclasses as dc
    import sys
    import types

    from models.zoo import VLeaf, VMany
    from pyoak.node import NODE_REGISTRY, ASTNode

    reset_all()
    if not _DEFKID:
        mod = types.ModuleType("vgen_defkid")
        sys.modules["vgen_defkid"] = mod
        src = (
            "from dataclasses import dataclass, field\nfrom models.zoo import VBase, VLeaf, VMany\n\n"
            "EMPTY = VMany(items=())\nPASS = VLeaf(v=-1)\n\n"
            "@dataclass(frozen=True)\nclass VDefKid(VBase):\n    body: VBase = EMPTY\n    first: VBase | None = PASS\n    rest: tuple[VBase, ...] = (PASS,)\n    v: int = 0\n"
        )
        exec(compile(src, "vgen_defkid", "exec", dont_inherit=True), mod.__dict__)
        _DEFKID["cls"] = mod.__dict__["VDefKid"]
    cls = _DEFKID["cls"]
    how = e.pick(["all-defaults", "explicit-children", "mixed", "below-a-parent", "defaults-re-registered", "derived-child", "derived-child-below-a-parent"], "original")
    if how.startswith("derived-child"):
        # a child field that is no constructor argument: the class derives it (also for the copy)
        from models.zoo import VDerived

        orig = VDerived(name="foo") if how == "derived-child" else VMany(items=(VLeaf(v=1), VDerived(name="ab")))
        try:
            copy = orig.duplicate()
        except Exception as ex:  # noqa: BLE001
            e.fail("duplicate-raises:derived-child-field", scenario={"kind": "node-valued-defaults", "original": how, "raised": f"{type(ex).__name__}: {ex}"[:160]})
        scenario = {"kind": "node-valued-defaults", "original": how}
        o_nodes = [orig] + [i.node for i in orig.dfs()]
        c_nodes = [copy] + [i.node for i in copy.dfs()]
        if not (copy == orig) or len(o_nodes) != len(c_nodes) or any(a.content_id != b.content_id for a, b in zip(o_nodes, c_nodes)):
            e.fail("duplicate-not-equal-to-original", scenario=scenario)
        if {id(n) for n in o_nodes} & {id(n) for n in c_nodes}:
            e.fail("duplicate-reuses-an-original-object", scenario=scenario)
        if any(ASTNode.get_any(b.id) is not b for b in c_nodes):
            e.fail("duplicate-node-not-registered", scenario=scenario)
        e.distinct(how)
        return scenario
    if how == "defaults-re-registered":
        for f in dc.fields(cls):
            if isinstance(f.default, ASTNode):
                NODE_REGISTRY[f.default.id] = f.default  # the defaults are live, registered nodes (as right after import)
    if how in ("all-defaults", "defaults-re-registered"):
        orig = cls(v=1)
    elif how == "explicit-children":
        orig = cls(body=VMany(items=()), first=VLeaf(v=-1), rest=(VLeaf(v=-1),), v=1)
    elif how == "mixed":
        orig = cls(first=VLeaf(v=5), v=1)
    else:
        orig = VMany(items=(cls(v=1), cls(rest=(), v=2)))
    copy = orig.duplicate()
    scenario = {"kind": "node-valued-defaults", "original": how}

    def walk(n, out):
        out.append(n)
        for f in dc.fields(n):
            v = getattr(n, f.name)
            if isinstance(v, ASTNode):
                walk(v, out)
            elif isinstance(v, tuple):
                for c in v:
                    if isinstance(c, ASTNode):
                        walk(c, out)
        return out

    o_nodes, c_nodes = walk(orig, []), walk(copy, [])
    if not (copy == orig) or len(o_nodes) != len(c_nodes) or any(a.content_id != b.content_id or type(a) is not type(b) for a, b in zip(o_nodes, c_nodes)):
        e.fail("duplicate-not-equal-to-original", scenario=scenario)
    o_ids = {id(n) for n in o_nodes}
    for b in c_nodes:
        if id(b) in o_ids:
            scenario.update(shared=type(b).__name__)
            e.fail("duplicate-reuses-an-original-object", scenario=scenario)
        if ASTNode.get_any(b.id) is not b:
            scenario.update(node=type(b).__name__)
            e.fail("duplicate-node-not-registered", scenario=scenario)
    e.distinct(how)
    return scenario


def spec(tier: str, seed: int) -> Spec:
    n = 5 if tier == "quick" else 7
    shapes = [(s, False) for s in all_shapes(n, 3)]
    from models.shapes import exotic_shapes

    cases = shapes + _shared_variants() + [(x, False) for x in exotic_shapes()]
    chunk = 12
    fams = [Family(f"duplicate[{k}:{k + chunk}]", make_duplicate_harness(cases[k : k + chunk]), variables="selectors: tree, twins, state of the original") for k in range(0, len(cases), chunk)]
    from checks.C05 import _mi_prepare

    for first in ("MNamed", "MBodied", "MFunc", "MEmpty"):
        fams.append(Family(f"duplicate-multiple-inheritance-first-{first}", make_duplicate_harness([], prepare=lambda e, _f=first: _mi_prepare(e, (_f,))), variables="as above; freshly created classes with multiple inheritance and empty bodies; the class used first is fixed per family"))
    fams.append(Family("node-valued-defaults", node_default_harness, variables="selector: which children of the original are the class-level default nodes"))
    fams.append(Family("replace", replace_harness, variables="selectors: base, twin (and creation order), state, changed fields, operation"))
    return Spec(
        families=fams,
        functions=FUNCTIONS,
        bounds={"duplicate_trees": len(cases), "nodes_per_tree": n, "replace_bases": len(REPLACE_BASES), "changes": "single- and two-field changes incl. non-comparable, origin, empty change"},
        rule="a case = (tree, twins, original state) for duplicate; (base, twin, order, state, change, operation) for replace; distinct by that tuple; all non-trivial",
        variables="selectors only",
        assumptions=["the id 'a fresh construction with the original absent would get' is obtained experimentally: the new node is taken out of the registry, the same init values are constructed again, and the registry is restored"],
        outside=["trees beyond the bound", "changes of more than two fields"],
    )


def _plant_duplicate_shallow_tuple():
    import pyoak.node as N
    from dataclasses import replace

    def duplicate(self):
        changes = {}
        for obj, f in self.iter_child_fields():
            if isinstance(obj, N.ASTNode):
                changes[f.name] = obj.duplicate()
        return replace(self, **changes)

    N.ASTNode.duplicate = duplicate


PLANTED = {"duplicate_shallow_tuple": _plant_duplicate_shallow_tuple}
