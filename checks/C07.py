"""C07 -- xpath search and xpath match agree with each other and the documented semantics.

Engine X: index parsing over symbolic digit lists, element matching over symbolic
indices / field names, `anywhere` assembly over symbolic lists.
Engine P: xpath texts derived from the grammar by selectors, evaluated by the
real findall / match / find on zoo trees against the reference evaluator.
"""
from __future__ import annotations

from typing import Any

from models.zoo import CLASSES, R, build, describe, kids_of, node_at, positions_of, reset_all, sub_recipe
from oracles import xpath_ref as XR
from vcheck.core import Family, Spec

ID = "C07"
FUNCTIONS = [
    "pyoak.match.xpath:XPathTransformer.xpath", "pyoak.match.xpath:XPathTransformer.element", "pyoak.match.xpath:XPathTransformer.index_spec",
    "pyoak.match.xpath:_match_node_element", "pyoak.match.xpath:_match_node_xpath", "pyoak.match.xpath:ASTXpath.match",
    "pyoak.match.xpath:ASTXpath.findall", "pyoak.node:ASTNode.find", "pyoak.node:ASTNode.findall",
]

FIELDS = [None, "items", "child", "one", "first"]
INDICES = [None, "any", "0", "1", "12"]
CLS = [None, "VLeaf", "VSubLeaf", "VBase", "VMany"]


def trees() -> list[Any]:
    L = lambda v: R("VLeaf", {"v": v})  # noqa: E731
    S = lambda v: R("VSubLeaf", {"v": v})  # noqa: E731
    thirteen = tuple(L(100 + i) for i in range(12)) + (R("VMany", items=(S(200),)),)
    return [
        R("VMany", items=(L(1), S(2), R("VMany", items=(L(3),)), R("VReq", child=L(4)))),
        R("VMany", items=tuple(L(10 + i) for i in range(13))),
        R("VReq", child=R("VReq", child=R("VOne", one=L(5)))),
        R("VMixed", {"v": 1}, first=L(6), items=(S(7), R("VMany", items=(L(8), L(9)))), one=R("VReq", child=S(10))),
        R("VInh", {"v": 2}, first=R("VReq", child=L(11)), items=(), one=None, extra=R("VMany", items=(S(12),))),
        L(13),
        R("VMany", items=(R("VMany", items=(R("VMany", items=(L(14),)),)),)),
        R("VPair", pair=(L(15), R("VMany", items=(L(16), L(17))))),
        R("VAbAc", ab=L(18), ac=R("VMany", items=(L(19),))),
        R("VReq", child=R("VMany", items=thirteen)),
        R("VMany", items=(L(20), L(20), R("VReq", child=L(20)))),  # content-identical twins
        R("VReq", child=R("VMany", items=(R("VReq", child=L(21)), R("VOne", one=L(22))))),
        R("VMany", items=(R("VReq", child=L(23)), R("VReq", child=L(23)))),  # symmetric twins: equal nodes under equal parents
        R("VMany", items=(R("VMany", items=(L(30), R("VMany", items=(L(31),)))), L(32))),  # nested matches before a later direct child
    ]


def full_steps() -> list[tuple]:
    out = []
    for anywhere in (False, True):
        for f in FIELDS[:4]:
            for i in INDICES:
                for c in CLS:
                    out.append((anywhere, f, i, c))
    return out


REDUCED = [
    (False, None, None, "VLeaf"), (True, None, None, "VLeaf"), (False, "items", None, "VBase"), (True, "items", "0", None),
    (False, "child", None, None), (True, "child", None, "VBase"), (False, None, "12", "VBase"), (True, None, "any", "VMany"),
    (False, "one", None, "VLeaf"), (True, None, "1", "VSubLeaf"), (False, None, None, "VMany"), (True, "first", None, None),
]


def slotted_trees() -> list[Any]:
    """Classes that exist as two class objects under one name (dataclass re-creates a slots=True
    class): a class step has to resolve to the class the nodes are instances of."""
    L = lambda v: R("VLeaf", {"v": v})  # noqa: E731
    return [
        R("VMany", items=(R("VSlot", {"v": 1}, kid=L(40)), L(41), R("VSlot", {"v": 2}, kid=R("VSlot", {"v": 3})))),
        R("VSlot", {"v": 4}, kid=R("VMany", items=(R("VSlot", {"v": 5}), L(42)))),
    ]


SLOTTED_PATHS = [
    ([(True, None, None, "VSlot")], False), ([(False, None, None, "VMany"), (False, "items", None, "VSlot")], False), ([(True, "kid", None, "VSlot")], False),
    ([(True, None, None, "VSlot"), (True, None, None, "VLeaf")], False), ([(False, None, None, "VSlot")], False), ([(False, None, None, "VSlot")], True),
    ([(True, "items", "2", "VSlot"), (False, "kid", None, "VBase")], False), ([(True, None, None, "VBase")], False),
]


def two_field_trees() -> list[Any]:
    """A class with two tuple child fields, both populated at the same indices."""
    L = lambda v: R("VLeaf", {"v": v})  # noqa: E731
    S = lambda v: R("VSubLeaf", {"v": v})  # noqa: E731
    return [
        R("VTwoSeq", left=(L(50), L(51)), right=(L(52), S(53), L(54)), mid=L(55)),
        R("VMany", items=(R("VTwoSeq", left=(L(56),), right=(L(57),)), R("VTwoSeq", left=(), right=(S(58), L(59))))),
    ]


def linked_node_trees() -> list[Any]:
    """A PROPERTY (annotated Any) whose value happens to be a node - a resolved cross-reference: it
    is no child, so no step ever reaches it through that field."""
    from models.zoo import VLeaf

    L = lambda v: R("VLeaf", {"v": v})  # noqa: E731
    outside = VLeaf(v=770)  # not part of any tree
    return [
        R("VMany", items=(R("VTyped", {"a": outside, "i": 1}, kid=L(71)), R("VTyped", {"a": None}, kid=L(72), kids=(L(73),)))),
        R("VReq", child=R("VTyped", {"a": (outside,), "u": "x"}, kids=(L(74), L(75)))),
    ]


def linked_node_paths() -> list[tuple[list[tuple], bool]]:
    out = []
    for anywhere in (False, True):
        for fld in ("a", "kid", "kids", "u"):
            for idx in (None, "any", "0"):
                for cls in ("VLeaf", "VBase"):
                    out.append(([(True, None, None, "VTyped"), (anywhere, fld, idx, cls)], False))
                    out.append(([(anywhere, fld, idx, cls)], True))
    return out


def two_field_paths() -> list[tuple[list[tuple], bool]]:
    out = []
    for anywhere in (False, True):
        for idx in ("0", "1", "2", "any", None):
            for fld in (None, "left", "right", "mid"):
                for cls in ("VLeaf", "VBase"):
                    out.append(([(True, None, None, "VTwoSeq"), (anywhere, fld, idx, cls)], False))
    out += [([(False, None, None, "VTwoSeq"), (False, None, "1", "VLeaf")], False), ([(False, None, None, "VTwoSeq"), (False, None, "1", "VLeaf")], True)]
    return out


REJECTED_DEFINITIONS = ["//", "//NoSuchClassAnywhere", "NoSuchClassAnywhere", "/VLeaf//", "/@items[", "//@items[0]NoSuchClassAnywhere/", "/VLeaf/[x]"]


def make_harness(paths: list[tuple[list[tuple], bool]], trees: list[Any] | None = None, after_rejected: bool = False):
    TREES = trees if trees is not None else globals()["TREES"]  # noqa: N806

    def harness(e):
        from pyoak.match.xpath import ASTXpath
        from pyoak.tree import Tree

        reset_all()
        pno = e.choice(len(paths), "xpath")
        steps, relative = paths[pno]
        text = XR.render(steps, relative)
        tno = e.choice(len(TREES), "tree")
        recipe = TREES[tno]
        root = build(recipe)
        chains = XR.chains(recipe, root)
        rejected_first = None
        if after_rejected:
            # a definition that is rejected (syntax error / unknown class, before or after a '//') is
            # compiled immediately before: the meaning of the next definition must not depend on it
            from pyoak.match.error import ASTXpathDefinitionError

            rejected_first = e.pick(REJECTED_DEFINITIONS, "rejected_definition_first")
            via = e.pick(["ASTXpath", "find"], "rejected_through")
            try:
                ASTXpath(rejected_first) if via == "ASTXpath" else root.find(rejected_first)
                e.assume(False)  # accepted after all: not the prehistory meant here
            except ASTXpathDefinitionError:
                pass
        xp = ASTXpath(text)
        scenario: dict[str, Any] = {"xpath": text, "tree": describe(recipe)}
        if rejected_first is not None:
            scenario["rejected_definition_first"] = rejected_first
        found = list(xp.findall(root))
        want = [ch[-1][0] for ch in chains if XR.matches(steps, relative, ch, CLASSES)]
        tree = Tree(root)
        multi = any(s[2] not in (None, "any") and len(s[2]) > 1 for s in steps)
        first_child = steps[0][1] == "child"

        def where(n):
            for ch in chains:
                if ch[-1][0] is n:
                    return "/".join(f"{f}[{i}]" if i is not None else str(f) for _, f, i in ch[1:]) or "<root>"
            return "?"

        if len({id(n) for n in found}) != len(found):
            scenario.update(found=[where(n) for n in found])
            e.fail("findall-yields-a-node-twice", scenario=scenario)
        matched = [ch[-1][0] for ch in chains if xp.match(tree, ch[-1][0])]
        scenario.update(findall=[where(n) for n in found], match=[where(n) for n in matched], reference=[where(n) for n in want])

        def sig(base):
            if multi:
                return f"index-multi-digit:{base}"
            if first_child and base != "match-differs-from-reference":
                return f"first-step-field-child-matches-root:{base}"
            return base

        if {id(n) for n in matched} != {id(n) for n in want}:
            e.fail(sig("match-differs-from-reference"), scenario=scenario)
        if {id(n) for n in found} != {id(n) for n in want}:
            e.fail(sig("findall-differs-from-reference"), scenario=scenario)
        first = root.find(text)
        if first is not (found[0] if found else None):
            e.fail("find-is-not-first-of-findall", scenario=scenario)
        if list(root.findall(text)) != found:
            e.fail("node.findall-differs-from-ASTXpath.findall", scenario=scenario)
        # the same xpath (string and object) under other roots that share node objects with the
        # first tree: answers are relative to the root given, never to an earlier one
        others = [(f"subtree at {path}", sub_recipe(recipe, path), node_at(root, path)) for path in positions_of(recipe) if kids_of(sub_recipe(recipe, path))][:3]
        wrapped_recipe = R("VReq", child=recipe)
        others.append(("new parent around the old root", wrapped_recipe, CLASSES["VReq"](child=root)))
        for label, recipe2, root2 in others:
            chains2 = XR.chains(recipe2, root2)
            want2 = [ch[-1][0] for ch in chains2 if XR.matches(steps, relative, ch, CLASSES)]
            tree2 = Tree(root2)
            for xp2 in (xp, ASTXpath(text)):
                matched2 = [ch[-1][0] for ch in chains2 if xp2.match(tree2, ch[-1][0])]
                found2 = list(xp2.findall(root2))
                if {id(n) for n in matched2} != {id(n) for n in want2} or {id(n) for n in found2} != {id(n) for n in want2}:
                    if {id(n) for n in matched} != {id(n) for n in want} or {id(n) for n in found} != {id(n) for n in want}:
                        break  # already reported above
                    scenario.update(second_root=label, second_match=len(matched2), second_findall=len(found2), second_reference=len(want2))
                    e.fail(sig("answer-under-second-root-differs-from-reference"), scenario=scenario)
        e.distinct((pno, tno))
        if want:
            e.count("nonempty_results")
        return {"xpath": text, "tree": tno, "matches": len(want)}

    return harness


TREES = trees()


def path_space(tier: str) -> list[tuple[list[tuple], bool]]:
    full = full_steps()
    out: list[tuple[list[tuple], bool]] = []

    def add(steps):
        if steps[-1][3] is None:
            return  # the last step needs a class
        for s in steps:
            if s[1] is None and s[2] is None and s[3] is None:
                return  # an empty element is not a step
        out.append((steps, False))
        if not steps[0][0]:
            out.append((steps, True))  # relative spelling

    for a in full:
        add([a])
    for a in full:
        for b in REDUCED:
            add([a, b])
            add([b, a])
    red3 = REDUCED if tier == "thorough" else REDUCED[:8]
    for a in red3:
        for b in red3:
            for c in red3:
                add([a, b, c])
    if tier == "thorough":
        for a in REDUCED[:6]:
            for b in REDUCED[:6]:
                for c in REDUCED[:6]:
                    for d in REDUCED[:6]:
                        add([a, b, c, d])
    return out


def _x_runner(tier: str, seed: int, workers: int):
    from xh import c07_x
    from xh.runner import run_obligations

    return run_obligations("xh.c07_x", c07_x.QUICK, 120 if tier == "quick" else 300, workers=workers, signatures=c07_x.SIGNATURES)


def replay_obligation(payload):
    from xh.runner import replay_call

    return replay_call(payload)


def spec(tier: str, seed: int) -> Spec:
    paths = path_space(tier)
    chunk = max(1, len(paths) // 64)
    fams = [Family(f"xpaths[{k}:{k + chunk}]", make_harness(paths[k : k + chunk]), variables="selectors: xpath derivation, tree") for k in range(0, len(paths), chunk)]
    rp = paths[:: (29 if tier == "quick" else 9)]
    rch = max(1, len(rp) // 8)
    fams += [Family(f"after-a-rejected-definition[{k}:{k + rch}]", make_harness(rp[k : k + rch], after_rejected=True), variables="selectors: rejected definition compiled first (7 texts x 2 entry points), xpath derivation, tree") for k in range(0, len(rp), rch)]
    fams.append(Family("property-holding-a-node", make_harness(linked_node_paths(), linked_node_trees()), variables="selectors: xpath naming a property field / a child field, tree"))
    fams.append(Family("two-sequence-fields", make_harness(two_field_paths(), two_field_trees()), variables="selectors: xpath (index with and without a field name), tree"))
    fams.append(Family("slotted-classes", make_harness(SLOTTED_PATHS, slotted_trees()), variables="selectors: xpath, tree (classes created with slots=True)"))
    return Spec(
        families=fams,
        obligation_runners=[_x_runner],
        functions=FUNCTIONS,
        bounds={"xpaths": len(paths), "steps": "1-3 (quick) / 1-4 (thorough): all 1-step paths, 2-step paths with one step from the full set (2 x 4 x 5 x 5) and one from 12 representatives, 3/4-step paths over representatives; absolute and relative spellings", "trees": len(TREES), "X": "digit lists up to 4 digits; unbounded indices; field names up to 3 characters; element lists up to 5"},
        rule="X: one obligation per kernel with reachability twin; P: a case = (xpath text, tree): findall, match on every node, find compared with the reference evaluator; non-trivial = reference result non-empty (counted), distinct by (xpath, tree)",
        variables="data: symbolic digits / indices / field names / element lists (X); selectors: xpath steps, tree (P)",
        assumptions=["the text -> token stage (lark) runs concretely on every generated text", "reference evaluator oracles/xpath_ref.py implements DESIGN appendix A.3"],
        outside=["xpaths longer than 4 steps", "trees outside the 12 zoo trees", "class names / field names outside the generator's vocabulary"],
    )


def _plant_anywhere_direct_only():
    import pyoak.match.xpath as X

    orig = X._match_node_xpath

    def m(tree, node, elements):
        # 'anywhere' only looks at the grandparent instead of every ancestor
        element = elements[0]
        if element.anywhere and len(elements) > 1:
            c_parent, c_field, c_index = tree.get_parent_info(node)
            if not X._match_node_element(X._NodeTraversalInfo(node, c_parent, c_field, c_index), element):
                return False
            if c_parent is None:
                return False
            return m(tree, c_parent, elements[1:])
        return orig(tree, node, elements)

    X._match_node_xpath = m


PLANTED = {"anywhere_direct_only": _plant_anywhere_direct_only}
