"""C02 -- `==` is content equality plus origin equality at every position.

Engine P (selectors): pairs of trees whose origins differ at one chosen position,
all small recipe pairs, triples for transitivity, foreign comparands.
"""
from __future__ import annotations

from typing import Any

from checks.C01 import _struct
from models.shapes import all_shapes
from models.zoo import R, build, describe, kids_of, node_at, origin_class, positions_of, reset_all, with_origin
from vcheck.core import Family, Spec

ID = "C02"
FUNCTIONS = ["pyoak.node:_eq_fn", "pyoak.node:_hash_fn", "pyoak.node:ASTNode.__init_subclass__", "pyoak.node:ASTNode.dfs"]
POOL = [None, "no", "a", "a2", "b", "c", "gen", "xml", "multi", "a_linecol", "a_file", "gen_as_code", "multi_linecol"]


def _origins(recipe: Any) -> list[str]:
    out = [origin_class(recipe[2])]
    for _f, _i, c in kids_of(recipe):
        out.extend(_origins(c))
    return out


def expected_eq(ra: Any, rb: Any) -> bool:
    return ra[0] == rb[0] and _struct(ra) == _struct(rb) and _origins(ra) == _origins(rb)


def _check_pair(e, x, y, rx, ry, scenario):
    want = expected_eq(rx, ry)
    hx, hy = hash(x), hash(y)
    got = [x == y, y == x, not (x != y), not (y != x)]
    scenario.update(expected_equal=want, eq=got[0], eq_reversed=got[1], ne=not got[2])
    if any(g is not want for g in got):
        e.fail(("equal-trees-compare-unequal" if want else "unequal-trees-compare-equal") + ":" + scenario.get("kind", "pair"), scenario=scenario)
    if not (x == x) or (x != x):
        e.fail("eq-not-reflexive", scenario=scenario)
    if hash(x) != hx or hash(y) != hy:
        e.fail("hash-changed", scenario=scenario)


def _foreign_ids(data: Any, counter: list[int] | None = None) -> Any:
    counter = counter if counter is not None else [0]
    if isinstance(data, dict):
        out = {}
        for k, v in data.items():
            if k == "id" and "content_id" in data:
                counter[0] += 1
                out[k] = f"n{counter[0]}"
            else:
                out[k] = _foreign_ids(v, counter)
        return out
    if isinstance(data, list):
        return [_foreign_ids(v, counter) for v in data]
    return data


def make_origin_harness(bases):
    def harness(e):
        reset_all()
        bno = e.choice(len(bases), "base")
        base = bases[bno]
        pos = positions_of(base)
        p = e.choice(len(pos), "position")
        i1 = e.choice(len(POOL), "origin_x")
        i2 = i1 + e.choice(len(POOL) - i1, "origin_y")  # unordered pairs: both argument orders are compared below
        k1, k2 = POOL[i1], POOL[i2]
        rx, ry = with_origin(base, pos[p], k1), with_origin(base, pos[p], k2)
        mode = e.pick(["same-position", "moved"], "mode")
        if mode == "moved":
            # y carries the origin at another position instead
            q = e.choice(len(pos), "position_y")
            ry = with_origin(base, pos[q], k1)
        # the registry history must not matter: x may be unregistered before y is built, in which
        # case y's nodes take over the ids of x's nodes wherever their id pre-images agree
        history = e.pick(["both-registered", "x-detached-before-y-is-built", "x-root-replaced-by-y", "y-loaded-with-foreign-ids"] if mode == "same-position" else ["both-registered"], "registry_history")
        x = build(rx)
        if history == "x-detached-before-y-is-built":
            x.detach()
            y = build(ry)
        elif history == "y-loaded-with-foreign-ids":
            # y comes out of as_obj() with ids assigned by another producer ("n1", "n2", ...):
            # ids are no part of the relation
            y0 = build(ry)
            data = _foreign_ids(y0.as_dict())
            if e.flag("original_of_y_detached"):
                y0.detach()
            y = type(y0).as_obj(data)
            if y is y0:
                e.fail("harness:foreign-id-load-returned-original")
        elif history == "x-root-replaced-by-y":
            x.detach()
            y = build(ry)
            x, y = y, x
        else:
            y = build(ry)
        scenario = {"kind": "origin-at-depth-%d" % len(pos[p]), "tree": describe(base), "position": str(pos[p]), "origin_x": k1, "origin_y": k2, "mode": mode, "registry_history": history}
        _check_pair(e, x, y, rx, ry, scenario)
        e.distinct((bno, p, k1, k2, mode, history))
        return scenario

    return harness


def make_pairs_harness(recipes):
    def harness(e):
        reset_all()
        i = e.choice(len(recipes), "left")
        j = e.choice(len(recipes), "right")
        x, y = build(recipes[i]), build(recipes[j])
        _check_pair(e, x, y, recipes[i], recipes[j], {"kind": "all-pairs", "left": describe(recipes[i]), "right": describe(recipes[j])})
        e.distinct((i, j))
        return {"left": i, "right": j}

    return harness


def shared_harness(e):
    """Trees in which one node OBJECT sits at several positions, compared with trees that share
    in another pattern or not at all: the relation is about positions, not about objects."""
    from models.zoo import VLeaf, VMany, VReq, origin

    reset_all()
    keys = [None, "a", "b"]
    # three positions; origin key per position for x and for y
    ox = [e.pick(keys, f"x_origin{i}") for i in range(3)]
    oy = [e.pick(keys, f"y_origin{i}") for i in range(3)]
    pattern_x = e.pick(["none", "01", "12", "02", "012"], "x_shares_positions")
    pattern_y = e.pick(["none", "01", "12"], "y_shares_positions")
    wrap = e.flag("below_a_wrapper")

    def make(origins, pattern):
        objs: list[Any] = [None, None, None]
        for grp in ([pattern] if pattern != "none" else []):
            idx = [int(c) for c in grp]
            if len({origins[i] for i in idx}) != 1:
                return None  # one object has one origin: this assignment does not exist
            kw = {} if origins[idx[0]] is None else {"origin": origin(origins[idx[0]])}
            node = VReq(child=VLeaf(v=1), **kw) if wrap else VLeaf(v=1, **kw)
            for i in idx:
                objs[i] = node
        for i in range(3):
            if objs[i] is None:
                kw = {} if origins[i] is None else {"origin": origin(origins[i])}
                objs[i] = VReq(child=VLeaf(v=1), **kw) if wrap else VLeaf(v=1, **kw)
        return VMany(items=tuple(objs))

    x, y = make(ox, pattern_x), make(oy, pattern_y)
    if x is None or y is None:
        e.assume(False)
    want = [origin_class(k) for k in ox] == [origin_class(k) for k in oy]
    got = [x == y, y == x, not (x != y)]
    scenario = {"kind": "shared-objects", "x_origins": ox, "y_origins": oy, "x_shares_positions": pattern_x, "y_shares_positions": pattern_y, "below_a_wrapper": bool(wrap), "expected_equal": want, "eq": got[0], "eq_reversed": got[1]}
    if any(g is not want for g in got):
        e.fail(("equal-trees-compare-unequal" if want else "unequal-trees-compare-equal") + ":shared-objects", scenario=scenario)
    e.distinct((tuple(ox), tuple(oy), pattern_x, pattern_y, bool(wrap)))
    return scenario


def value_pairs_harness(e):
    """Values that Python's == identifies but the content digest distinguishes (1 / True / 1.0,
    0 / False, -0.0 / 0.0 ...), on classes at different depths of the class hierarchy, at the
    root and below a parent; and origins that differ only below a non-comparable child field."""
    from models.zoo import VNcKid, VSubLeaf, VTyped, origin

    reset_all()
    POOL = [1, True, 1.0, 0, False, 0.0, -0.0, "1"]  # noqa: N806
    i, j = e.choice(len(POOL), "left_value"), e.choice(len(POOL), "right_value")
    where = e.pick(["VLeaf", "VSubLeaf", "VTyped.a", "below-a-parent", "below-a-non-comparable-child-field"], "where")
    a, b = POOL[i], POOL[j]

    def make(v, okey=None):
        from models.zoo import VLeaf, VMany

        if where == "VLeaf":
            return VLeaf(v=v)
        if where == "VSubLeaf":
            return VSubLeaf(v=v)
        if where == "VTyped.a":
            return VTyped(a=v)
        if where == "below-a-parent":
            return VMany(items=(VLeaf(v=v),))
        return VNcKid(kid=VLeaf(v=v, **({} if okey is None else {"origin": origin(okey)})))

    same_content = (type(a) is type(b)) and repr(a) == repr(b)
    x, y = make(a), make(b)
    got = [x == y, y == x, not (x != y)]
    want = same_content
    scenario = {"kind": "value-pairs", "where": where, "left": repr(a), "right": repr(b), "expected_equal": want, "eq": got[0]}
    if any(g is not want for g in got):
        e.fail(("equal-trees-compare-unequal" if want else "unequal-trees-compare-equal") + ":python-equal-values", scenario=scenario)
    if where == "below-a-non-comparable-child-field" and i == j:
        # same content, origins differ only at the child held by the compare=False field
        z = make(a, "a")
        if (x == z) or (z == x) or not (x != z):
            scenario.update(note="origins differ below the non-comparable child field")
            e.fail("unequal-trees-compare-equal:origin-below-non-comparable-child-field", scenario=scenario)
    e.distinct((i, j, where))
    return scenario


# ------------------------------------------------------------------ data-symbolic origins
_SYM_ORIGIN = None


def _sym_origin_class():
    """A user-defined origin class (the library's Origin is an open base class) whose equality
    is decided by an integer key.  Under engine P the key is a z3 integer: `a.origin == b.origin`
    inside the real `__eq__` yields a SymBool and the solver decides which outcomes are feasible
    under the path condition - so one path stands for ALL integer keys with that outcome, and
    symmetric / transitive consequences of earlier comparisons are derived by z3, not enumerated."""
    global _SYM_ORIGIN
    if _SYM_ORIGIN is None:
        from dataclasses import dataclass
        from dataclasses import field as dfield

        from pyoak.origin import NO_POSITION, NO_SOURCE, Origin, Position, Source

        @dataclass(frozen=True, eq=False)
        class KeyOrigin(Origin):
            source: Source = dfield(default=NO_SOURCE)
            position: Position = dfield(default=NO_POSITION)
            key: Any = 0
            tag: str = ""

            @property
            def fqn(self) -> str:
                return "key://" + self.tag

            def __eq__(self, other):  # type: ignore[override]
                if not isinstance(other, KeyOrigin):
                    return False
                return self.key == other.key

            def __ne__(self, other):  # type: ignore[override]
                if not isinstance(other, KeyOrigin):
                    return True
                return self.key != other.key

            def __hash__(self) -> int:
                return hash(self.tag)

        _SYM_ORIGIN = KeyOrigin
    return _SYM_ORIGIN


def _all_equal(e, ks1, ks2):
    """The oracle's verdict as a term: equal keys at every position."""
    if getattr(e, "concrete", False):
        return all(a == b for a, b in zip(ks1, ks2))
    import z3

    from symx.engine import SymBool

    return SymBool(e, z3.And(*[a.expr == b.expr for a, b in zip(ks1, ks2)]))


def _build_keyed(recipe, keys, tags, counter=None):
    """Build the recipe with KeyOrigin(keys[i], tags[i]) at the i-th position (pre-order)."""
    from models.zoo import CLASSES, _is_recipe

    counter = counter if counter is not None else [0]
    i = counter[0]
    counter[0] += 1
    cls, props, _o, kids = recipe
    kw = dict(props)
    # children in declaration order of the real class = the order of positions_of()
    built = {}
    for fname, idx, crec in kids_of(recipe):
        built[(fname, idx)] = _build_keyed(crec, keys, tags, counter)
    for fname, val in kids:
        if val is None:
            kw[fname] = None
        elif _is_recipe(val):
            kw[fname] = built[(fname, None)]
        else:
            kw[fname] = tuple(built[(fname, j)] for j in range(len(val)))
    kw["origin"] = _sym_origin_class()(key=keys[i], tag=tags[i])
    return CLASSES[cls](**kw)


def make_symbolic_origin_harness(bases):
    def harness(e):
        reset_all()
        bno = e.choice(len(bases), "base")
        base = bases[bno]
        n = len(positions_of(base))
        fqn_mode = e.pick(["one-fqn-everywhere", "fqn-per-position", "fqn-per-object"], "fqn_mode")
        third = e.flag("third_tree")
        trees, keys = [], []
        for t in range(3 if third else 2):
            ks = [e.int(f"key_{'xyz'[t]}{i}") for i in range(n)]
            tags = [{"one-fqn-everywhere": "k", "fqn-per-position": f"p{i}", "fqn-per-object": f"{'xyz'[t]}{i}"}[fqn_mode] for i in range(n)]
            trees.append(_build_keyed(base, ks, tags))
            keys.append(ks)
        x, y = trees[0], trees[1]
        scenario = {"kind": "symbolic-origin-keys", "tree": describe(base), "positions": n, "fqn_mode": fqn_mode}
        hx = hash(x)
        r1 = True if x == y else False  # the real __eq__ branches on SymBools, z3 decides each
        want = _all_equal(e, keys[0], keys[1])
        # solver-decided assertion: under the path condition of this path, is the opposite verdict of
        # the oracle feasible?  (`if want` explores every feasible outcome)
        w = True if want else False
        scenario.update(eq=r1, expected_equal=w)
        if r1 is not w:
            e.fail(("equal-trees-compare-unequal" if w else "unequal-trees-compare-equal") + ":symbolic-origin-keys", scenario=scenario)
        r2 = True if y == x else False
        r3 = False if x != y else True
        if r2 is not r1 or r3 is not r1:
            scenario.update(eq_reversed=r2, ne=not r3)
            e.fail("eq-not-symmetric-or-ne-not-negation:symbolic-origin-keys", scenario=scenario)
        if hash(x) != hx:
            e.fail("hash-changed", scenario=scenario)
        if third:
            z = trees[2]
            r4 = True if y == z else False
            r5 = True if x == z else False
            w5 = True if _all_equal(e, keys[0], keys[2]) else False
            scenario.update(eq_yz=r4, eq_xz=r5, expected_xz=w5)
            if r5 is not w5:
                e.fail(("equal-trees-compare-unequal" if w5 else "unequal-trees-compare-equal") + ":symbolic-origin-keys", scenario=scenario)
            if r1 and r4 and not r5:
                e.fail("eq-not-transitive", scenario=scenario)
        e.count("symbolic_origin_paths")
        e.distinct((bno, fqn_mode, bool(third)))
        return scenario

    return harness


def _mutating_ops():
    from checks import C10

    return [n for n in C10._ops() if n.startswith(("replace", "dataclasses", "detach", "roundtrip", "as_obj", "from_json", "load-payload", "failed-load", "duplicate", "transform"))]


def make_hash_lifetime_harness(K: int, first_op: str | None = None, trees: list[int] | None = None):
    """`hash(node)` is constant for the node's lifetime: every pre-existing node keeps its hash,
    stays equal to itself and stays findable in a set / dict it was put into, whatever public
    operations (C10's alphabet: traversals, queries, duplicate, replace succeeding / rejected early /
    rejected by a subclass validation after registration, detach, round trips ...) run on the tree."""
    from checks import C10

    def harness(e):
        reset_all()
        ops = C10._ops()
        names = list(ops)
        tno = e.pick(trees, "tree") if trees else e.choice(len(C10.TREES), "tree")
        root = build(C10.TREES[tno])
        paths = positions_of(C10.TREES[tno])
        existing: dict[int, Any] = {}
        C10._collect(root, existing)
        C10._CTX["loaded"] = None
        C10._CTX["bystander"] = C10.VLeaf(v=424242)
        C10._CTX["bystander_origin"] = C10.origin("c")
        C10._collect(C10._CTX["bystander"], existing)
        nodes = list(existing.values())
        hashes = [hash(n) for n in nodes]
        as_set = set(nodes)
        as_dict = {n: i for i, n in enumerate(nodes)}
        first_holder = {}
        for i, n in enumerate(nodes):
            first_holder.setdefault((hash(n), n.id), i)  # twins inside one tree share hash and may be ==
        history: list[str] = []
        scenario: dict[str, Any] = {"kind": "hash-over-lifetime", "tree": describe(C10.TREES[tno]), "history": history}
        keep = []
        for step in range(K):
            op = first_op if (step == 0 and first_op) else e.pick(names, f"op{step}")
            p = paths[e.choice(len(paths), f"target{step}")]
            history.append(f"{op} on {p or '<root>'}")
            keep.append(ops[op](root, node_at(root, p)))
            for i, n in enumerate(nodes):
                if hash(n) != hashes[i]:
                    scenario.update(node=type(n).__name__, id_now=n.id)
                    e.fail("hash-changed", scenario=scenario)
                if not (n == n) or (n != n):
                    e.fail("eq-not-reflexive", scenario=scenario)
                if n not in as_set or n not in as_dict:
                    scenario.update(node=type(n).__name__)
                    e.fail("hash-changed:node-lost-from-the-set-it-is-in", scenario=scenario)
        e.distinct((tno, tuple(history)))
        return scenario

    return harness


def _triple_pool():
    L = lambda v, o=None: R("VLeaf", {"v": v}, o)  # noqa: E731
    out = []
    for o1 in (None, "a", "a2", "b"):
        for o2 in (None, "a", "b"):
            out.append(R("VReq", {}, o1, child=L(1, o2)))
    out += [L(1), L(1, "a"), L(1, "a2"), L(2), R("VMany", items=(L(1), L(1, "a"))), R("VMany", items=(L(1), L(1, "a2")))]
    return out


def triple_harness(e):
    reset_all()
    pool = _triple_pool()
    i, j, k = e.choice(len(pool), "a"), e.choice(len(pool), "b"), e.choice(len(pool), "c")
    a, b, c = build(pool[i]), build(pool[j]), build(pool[k])
    if a == b and b == c and not (a == c):
        e.fail("eq-not-transitive", scenario={"a": describe(pool[i]), "b": describe(pool[j]), "c": describe(pool[k])})
    if (a == b) != (b == a):
        e.fail("eq-not-symmetric", scenario={"a": describe(pool[i]), "b": describe(pool[j])})
    e.distinct((i, j, k))
    return {"triple": (i, j, k)}


def _same_named_classes():
    """Two distinct class objects with the same name and layout (defined twice in one module)."""
    import sys
    import types

    mod = sys.modules.get("vgen_samename") or types.ModuleType("vgen_samename")
    sys.modules["vgen_samename"] = mod
    src = "from dataclasses import dataclass\nfrom models.zoo import VBase\n\n@dataclass(frozen=True)\nclass VSameName(VBase):\n    v: int = 0\n    kid: VBase | None = None\n"
    out = []
    for _ in range(2):
        exec(compile(src, "vgen_samename", "exec", dont_inherit=True), mod.__dict__)
        out.append(mod.__dict__["VSameName"])
    return out


def foreign_harness(e):
    from models.zoo import VSubLeaf

    reset_all()
    if e.flag("same_named_classes"):
        A, B = _same_named_classes()
        from models.zoo import VLeaf, VMany

        # only at the root: below the root two live classes with one name are indistinguishable by
        # design (the digest carries the class name and the library admits one class per name)
        where = e.pick(["root"], "where")
        x = A(v=1, kid=VLeaf(v=2)) if where == "root" else VMany(items=(A(v=1),))
        y = B(v=1, kid=VLeaf(v=2)) if where == "root" else VMany(items=(B(v=1),))
        got = [x == y, y == x, not (x != y)]
        if any(got):
            e.fail("nodes-of-different-classes-with-one-name-compare-equal", scenario={"where": where, "eq": got})
        e.distinct(("same-name", where))
        return {"same_named_classes": where}
    x = build(R("VLeaf", {"v": 1}, e.pick([None, "a"], "origin")))
    class _Permissive:
        """A non-node whose own __eq__ says yes to everything (unittest.mock.ANY, a handle object
        comparing by id, a wildcard): the node answers first, and it answers False."""

        def __eq__(self, o):
            return True

        def __ne__(self, o):
            return False

        __hash__ = None

    class _ById:
        def __init__(self, id_):
            self.id = id_

        def __eq__(self, o):
            return getattr(o, "id", None) == self.id

        def __hash__(self):
            return hash(self.id)

    other = e.pick(["None", "int", "str", "tuple", "subclass-instance", "other-class", "object", "non-node-with-permissive-eq", "non-node-comparing-by-id", "mock.ANY"], "comparand")
    val = {"None": None, "int": 1, "str": "x", "tuple": (x,), "subclass-instance": VSubLeaf(v=1), "other-class": build(R("VNonCmp", {"v": 1})), "object": object(), "non-node-with-permissive-eq": _Permissive(), "non-node-comparing-by-id": _ById(x.id), "mock.ANY": __import__("unittest.mock").mock.ANY}[other]
    if (x == val) is not False or (x != val) is not True:
        e.fail("comparison-with-foreign-object-not-False", scenario={"comparand": other})
    e.distinct(other)
    return {"comparand": other}


def spec(tier: str, seed: int) -> Spec:
    n = 4 if tier == "quick" else 6
    bases = all_shapes(n, 3)
    if tier == "quick":
        bases = all_shapes(3, 3) + all_shapes(4, 3)[40::3] + all_shapes(5, 3)[140::12]
    else:
        bases = all_shapes(5, 3) + all_shapes(6, 3)[422::8]
    from models.shapes import exotic_shapes

    bases = bases + exotic_shapes()
    chunk = 6
    fams = [Family(f"origin-edit[{k}:{k + chunk}]", make_origin_harness(bases[k : k + chunk]), variables="selectors: base recipe, position, origin of x, origin of y, mode") for k in range(0, len(bases), chunk)]
    sym_bases = (all_shapes(3, 3) + all_shapes(4, 3) + all_shapes(5, 3)[::4]) if tier == "quick" else (all_shapes(5, 3) + all_shapes(6, 3)[::3])
    sym_bases = sym_bases + exotic_shapes()
    for k in range(0, len(sym_bases), 24):
        fams.append(Family(f"symbolic-origin-keys[{k}:{k + 24}]", make_symbolic_origin_harness(sym_bases[k : k + 24]), variables="data: one unbounded z3 integer origin key per position of x, y (and z); the real __eq__ branches on key equalities and z3 decides the feasible outcomes; oracle verdict = conjunction term, decided by z3 under the path condition; selectors: base recipe, fqn mode, third tree"))
    fams.append(Family("hash-over-lifetime-K1", make_hash_lifetime_harness(1), variables="selectors: tree, operation, target"))
    for op in _mutating_ops():
        fams.append(Family(f"hash-over-lifetime-K2-first-{op}", make_hash_lifetime_harness(2, op, [0, 5] if tier == "quick" else None), variables="selectors: tree, target of the (node-creating / unregistering) first operation, second operation and target"))
    fams.append(Family("all-pairs", make_pairs_harness(all_shapes(3, 3)), variables="selectors: two recipes"))
    fams.append(Family("shared-objects", shared_harness, variables="selectors: origin per position of x and y, which positions hold one shared object, wrapper"))
    fams.append(Family("python-equal-values", value_pairs_harness, variables="selectors: two values from a pool of ==-equal / content-different values, class depth / position"))
    fams.append(Family("triples", triple_harness, variables="selectors: three trees from a pool with equal-but-distinct origins"))
    fams.append(Family("foreign", foreign_harness, variables="selector: comparand kind"))
    return Spec(
        families=fams,
        functions=FUNCTIONS,
        bounds={"bases": len(bases), "nodes_per_tree": 5 if tier == "quick" else 6, "depth": 3, "origin_pool": POOL, "triples": len(_triple_pool()) ** 3},
        rule="a case = (base recipe, position, origin x, origin y, same/moved) | recipe pair | triple | foreign comparand; all non-trivial; distinct by that tuple",
        variables="selectors only (origin integers cannot stay symbolic: a node's id renders origin.fqn at construction); origin equality over all integers is C15",
        assumptions=["oracle: structural equality of recipes (C01) and position-wise equality of origin keys ('a2' is an equal but distinct copy of 'a')"],
        outside=["trees beyond the bound", "origins outside the pool of 12 (which includes unequal origins that render the same fqn)"],
    )


def _plant_eq_children_only_direct():
    import pyoak.node as N

    def _eq(self, other):
        if other.__class__ is self.__class__:
            if self.content_id == other.content_id and self.origin == other.origin:
                for a, b in zip(self.get_child_nodes(), other.get_child_nodes()):
                    if a.origin != b.origin:
                        return False
                return True
        return False

    N._eq_fn = _eq
    from models.zoo import CLASSES

    for c in CLASSES.values():
        c.__eq__ = _eq


PLANTED = {"eq_children_only_direct": _plant_eq_children_only_direct}
