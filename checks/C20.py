"""C20 -- legacy traversal and legacy xpath follow the semantics of their successors.

Engine P: legacy dfs / bfs / gather with lazy symbolic prune / filter per node,
lazy skip_self / bottom_up / exact_type; legacy ASTXpath.match along the parent
chain against the C07 reference evaluator; calculate_xpath; malformed texts.
Engine X: legacy index parsing and `anywhere` assembly.
"""
from __future__ import annotations

from typing import Any

from models import legacy_zoo as LZ
from models.zoo import R
from oracles import xpath_ref as XR
from vcheck.core import Family, Spec

ID = "C20"
FUNCTIONS = [
    "pyoak.legacy.node:AwareASTNode.dfs", "pyoak.legacy.node:AwareASTNode.bfs", "pyoak.legacy.node:AwareASTNode.gather",
    "pyoak.legacy.node:AwareASTNode.calculate_xpath", "pyoak.legacy.node:_set_xpath",
    "pyoak.legacy.match.xpath:XPathTransformer.xpath", "pyoak.legacy.match.xpath:XPathTransformer.index_spec",
    "pyoak.legacy.match.xpath:_match_node_xpath", "pyoak.legacy.match.xpath:ASTXpath.__init__", "pyoak.legacy.match.xpath:ASTXpath.match",
]
GATHER = [("LLeaf",), ("LBase",), ("LTup", "LReq"), ("LSub", "LList")]


def _positions(recipe, root):
    """pre-order list of (node, recipe, chain) from the recipe by attribute access."""
    out = []

    def rec(r, n, chain):
        out.append((n, r, chain))
        for fname, idx, crec in LZ.lkids_of(r):
            val = getattr(n, fname)
            c = val if idx is None else val[idx]
            rec(crec, c, chain + [(c, fname, idx)])

    rec(recipe, root, [(root, None, None)])
    return out


def _kids(r, n):
    out = []
    for fname, idx, crec in LZ.lkids_of(r):
        val = getattr(n, fname)
        out.append((val if idx is None else val[idx], crec))
    return out


def _ref_pre(r, n, flt, prune, skip_self):
    out = []

    def visit(r_, n_):
        if flt(n_):
            out.append(n_)
        if prune(n_):
            return
        for c, cr in _kids(r_, n_):
            visit(cr, c)

    if skip_self:
        for c, cr in _kids(r, n):
            visit(cr, c)
    else:
        visit(r, n)
    return out


def _ref_post(r, n, flt, prune, skip_self):
    out = []

    def visit(r_, n_):
        if not prune(n_):
            for c, cr in _kids(r_, n_):
                visit(cr, c)
        if flt(n_):
            out.append(n_)

    if skip_self:
        for c, cr in _kids(r, n):
            visit(cr, c)
    else:
        visit(r, n)
    return out


def _ref_level(r, n, flt, prune, skip_self):
    from collections import deque

    out = []
    q = deque(_kids(r, n)) if skip_self else deque([(n, r)])
    while q:
        c, cr = q.popleft()
        if flt(c):
            out.append(c)
        if prune(c):
            continue
        q.extend(_kids(cr, c))
    return out


def _detached_twin_shapes():
    """Trees that are built detached (create_detached=True, never registered) and contain
    content-equal cousins / an equal ancestor-descendant pair: their ids coincide."""
    L = lambda v: R("LLeaf", {"v": v})  # noqa: E731
    return [
        R("LTup", items=(R("LReq", child=L(1)), R("LOpt", one=L(1)))),
        R("LReq", child=R("LReq", child=R("LOpt", one=R("LReq", child=L(1))))),
        R("LMix", {"v": 0}, first=R("LOpt", one=L(2)), items=(R("LReq", child=L(2)),), one=L(2)),
        R("LTup", items=(R("LTup", items=(L(4),)), R("LList", elems=[L(4), L(5)]))),
        R("LReq", child=R("LTup", items=(R("LReq", child=R("LTup", items=())),))),
    ]


def _equal_descendant_shapes():
    """A start node that is == to one of its own descendants (the child fields are compare=False)."""
    L = lambda v: R("LLeaf", {"v": v})  # noqa: E731
    N = lambda v, **k: R("LNcKid", {"v": v}, **k)  # noqa: E731
    return [
        N(1, kid=N(1, kid=L(2))),
        N(1, kid=None, more=(N(1), L(3), N(1, kid=L(4)))),
        R("LReq", child=N(5, kid=N(5, more=(L(6),)))),
    ]


def make_traversal_harness(shapes, detached: bool = False):
    def harness(e):
        LZ.lreset()
        sno = e.choice(len(shapes), "shape")
        recipe = shapes[sno]
        root = LZ.lbuild(recipe, all_detached=detached)
        pos = _positions(recipe, root)
        index = {id(n): k for k, (n, _, _) in enumerate(pos)}
        pb: dict[int, Any] = {}
        fb: dict[int, Any] = {}

        def bit(tab, n, name):
            k = id(n)
            if k not in tab:
                tab[k] = e.bool(f"{name}@{index.get(k, '?')}")
            return tab[k]

        with_prune, with_filter = e.flag("with_prune"), e.flag("with_filter")
        prune_cb = (lambda n: bit(pb, n, "prune")) if with_prune else None
        filter_cb = (lambda n: bit(fb, n, "filter")) if with_filter else None
        o_prune = prune_cb or (lambda n: False)
        o_filter = filter_cb or (lambda n: True)
        # start node: the root or (selector) its first inner child, to start below the root as well
        start_no = e.choice(min(2, len(pos)), "start")
        start, srec, _ = pos[start_no]
        skip_self = e.bool("skip_self")
        mode = e.pick(["dfs", "bfs", "gather"], "mode")
        scenario = {"tree": LZ.ldescribe(recipe), "start": start_no, "mode": mode, "with_prune": with_prune, "with_filter": with_filter}

        def names(nodes):
            return [index.get(id(n), "?") for n in nodes]

        if mode == "dfs":
            bottom_up = e.bool("bottom_up")
            got = list(start.dfs(prune=prune_cb, filter=filter_cb, bottom_up=bottom_up, skip_self=skip_self))
            bu, ss = (True if bottom_up else False), (True if skip_self else False)
            want = (_ref_post if bu else _ref_pre)(srec, start, o_filter, o_prune, ss)
            scenario.update(bottom_up=bu, skip_self=ss)
            what = f"dfs:{'post' if bu else 'pre'}"
        elif mode == "bfs":
            got = list(start.bfs(prune=prune_cb, filter=filter_cb, skip_self=skip_self))
            ss = True if skip_self else False
            want = _ref_level(srec, start, o_filter, o_prune, ss)
            scenario.update(skip_self=ss)
            what = "bfs"
        else:
            cls_names = e.pick(GATHER, "classes")
            classes = tuple(LZ.LCLASSES[c] for c in cls_names)
            exact = e.bool("exact_type")
            got = list(start.gather(classes[0] if len(classes) == 1 else classes, exact_type=exact, extra_filter=filter_cb, prune=prune_cb, skip_self=skip_self))
            ex, ss = (True if exact else False), (True if skip_self else False)

            def flt(n):
                return ((type(n) in classes) if ex else isinstance(n, classes)) and o_filter(n)

            want = _ref_pre(srec, start, flt, o_prune, ss)
            scenario.update(classes=list(cls_names), exact_type=ex, skip_self=ss)
            what = "gather"
        if [id(n) for n in got] != [id(n) for n in want]:
            scenario.update(got=names(got), expected=names(want), pruned=[index[k] for k, b in pb.items() if (True if b else False)], filtered_out=[index[k] for k, b in fb.items() if not (True if b else False)])
            e.fail(f"legacy-stream-mismatch:{what}", scenario=scenario)
        e.distinct((sno, start_no, mode, len(pb), len(fb)))
        return scenario

    return harness


# ------------------------------------------------------------------- xpath
def ltrees() -> list[Any]:
    L = lambda v: R("LLeaf", {"v": v})  # noqa: E731
    S = lambda v: R("LSub", {"v": v})  # noqa: E731
    thirteen = tuple(L(100 + i) for i in range(12)) + (R("LTup", items=(S(200),)),)
    return [
        R("LTup", items=(L(1), S(2), R("LTup", items=(L(3),)), R("LReq", child=L(4)))),
        R("LTup", items=tuple(L(10 + i) for i in range(13))),
        R("LReq", child=R("LReq", child=R("LOpt", one=L(5)))),
        R("LMix", {"v": 1}, first=L(6), items=(S(7), R("LList", elems=[L(8), L(9)])), one=R("LReq", child=S(10))),
        L(13),
        R("LTup", items=(R("LTup", items=(R("LTup", items=(L(14),)),)),)),
        R("LReq", child=R("LList", elems=list(thirteen))),
        R("LList", elems=[R("LReq", child=L(21)), R("LOpt", one=L(22)), R("LOpt", one=None)]),
    ]


LTREES = ltrees()
L_FIELDS = [None, "items", "child", "one", "elems"]
L_INDICES = [None, "any", "0", "1", "12"]
L_CLS = [None, "LLeaf", "LSub", "LBase", "LTup"]
L_REDUCED = [
    (False, None, None, "LLeaf"), (True, None, None, "LLeaf"), (False, "items", None, "LBase"), (True, "items", "0", None),
    (False, "child", None, None), (True, "child", None, "LBase"), (False, None, "12", "LBase"), (True, None, "any", "LTup"),
    (False, "one", None, "LLeaf"), (True, None, "1", "LSub"), (False, "elems", None, None), (True, "elems", "12", "LBase"),
]
MALFORMED = ["", "/", "//", "/@", "/[x]LLeaf", "/NoSuchClass", "/@f[1", "/@items[0]", "LLeaf/", "/LLeaf//", "/LLeaf[0]", "/@@a LLeaf", "/ASTNode", "/@items[-1]LLeaf", "/LLeaf/@", "(LLeaf)", "/LLeaf LLeaf", "/[1][2]LLeaf"]


def lpath_space(tier: str):
    out = []
    full = [(a, f, i, c) for a in (False, True) for f in L_FIELDS for i in L_INDICES for c in L_CLS]

    def add(steps):
        if steps[-1][3] is None:
            return
        for s in steps:
            if s[1] is None and s[2] is None and s[3] is None:
                return
        out.append((steps, False))
        if not steps[0][0]:
            out.append((steps, True))

    for a in full:
        add([a])
    for a in full:
        for b in (L_REDUCED if tier == "thorough" else L_REDUCED[::2] + [L_REDUCED[1]]):  # [1]: an any-depth class step, so that '//A//B' and 'A//B' are in the quick space
            add([a, b])
            add([b, a])
    r3 = L_REDUCED if tier == "thorough" else L_REDUCED[:6]
    for a in r3:
        for b in r3:
            for c in r3:
                add([a, b, c])
    return out


def make_xpath_harness(paths):
    def harness(e):
        from pyoak.legacy.match.xpath import ASTXpath

        LZ.lreset()
        pno = e.choice(len(paths), "xpath")
        steps, relative = paths[pno]
        text = XR.render(steps, relative)
        tno = e.choice(len(LTREES), "tree")
        recipe = LTREES[tno]
        root = LZ.lbuild(recipe)
        pos = _positions(recipe, root)
        # what was constructed (and rejected) earlier in the process has no bearing on this xpath
        earlier = e.pick(["none", "NoSuchClass", "//@f[", "/LLeaf//NoSuchClass"], "rejected_text_first")
        if earlier != "none":
            try:
                ASTXpath(earlier)
            except Exception:  # noqa: BLE001
                pass
        xp = ASTXpath(text)
        multi = any(s[2] not in (None, "any") and len(s[2]) > 1 for s in steps)

        def where(chain):
            return "/".join(f"{f}[{i}]" if i is not None else str(f) for _, f, i in chain[1:]) or "<root>"

        got = [where(ch) for n, _, ch in pos if xp.match(n)]
        want = [where(ch) for n, _, ch in pos if XR.matches(steps, relative, ch, LZ.LCLASSES)]
        if got != want:
            e.fail(("index-multi-digit:legacy-match" if multi else "legacy-match-differs-from-reference") + ("" if earlier == "none" else ":after-a-rejected-text"), scenario={"xpath": text, "tree": LZ.ldescribe(recipe), "rejected_text_first": earlier, "match": got, "reference": want})
        e.distinct((pno, tno, earlier))
        if want:
            e.count("nonempty_results")
        return {"xpath": text, "tree": tno, "matches": len(want)}

    return harness


def make_reused_xpath_harness(paths):
    """One ASTXpath OBJECT matched against the nodes of a tree, then again after the tree was
    edited in place (legacy trees are mutable: replace_with hands the old node's id to its
    replacement): every answer follows the node's CURRENT parent chain, and equals the answer of a
    freshly constructed ASTXpath of the same text."""

    def harness(e):
        from pyoak.legacy.match.xpath import ASTXpath
        from pyoak.origin import NO_ORIGIN

        LZ.lreset()
        pno = e.choice(len(paths), "xpath")
        steps, relative = paths[pno]
        text = XR.render(steps, relative)
        tno = e.pick([0, 2, 3, 5, 7], "tree")
        recipe = LTREES[tno]
        root = LZ.lbuild(recipe)
        xp = ASTXpath(text)
        live = _live_positions(root)
        first = [xp.match(n) for n, _ in live]
        want1 = [XR.matches(steps, relative, ch, LZ.LCLASSES) for _, ch in live]
        scenario = {"xpath": text, "tree": LZ.ldescribe(recipe)}
        if first != want1:
            e.fail("legacy-match-differs-from-reference", scenario=scenario)
        # ---- edit in place
        k = 1 + e.choice(len(live) - 1, "edited_position") if len(live) > 1 else None
        if k is None:
            e.assume(False)
        target = live[k][0]
        edit = e.pick(["replace_with-a-node-of-another-class-keeping-the-subtree", "replace_with-a-new-leaf", "replace_with-None", "replace-property"], "edit")
        o = NO_ORIGIN
        try:
            if edit == "replace_with-a-node-of-another-class-keeping-the-subtree":
                if isinstance(target, LZ.LTup):
                    new = LZ.LList(elems=[], origin=o, create_detached=True)
                    target.replace_with(new)
                elif isinstance(target, LZ.LReq):
                    new = LZ.LOpt(one=None, origin=o, create_detached=True)
                    target.replace_with(new)
                elif isinstance(target, LZ.LLeaf):
                    new = LZ.LTup(items=(), origin=o, create_detached=True)
                    target.replace_with(new)
                else:
                    new = LZ.LLeaf(v=77, origin=o, create_detached=True)
                    target.replace_with(new)
            elif edit == "replace_with-a-new-leaf":
                target.replace_with(LZ.LSub(v=78, origin=o, create_detached=True))
            elif edit == "replace_with-None":
                target.replace_with(None)
            else:
                if not hasattr(target, "v"):
                    e.assume(False)
                target.replace(v=target.v + 1000)
        except Exception:  # noqa: BLE001
            e.assume(False)  # the edit is not admissible at this position (type / optionality)
        live2 = _live_positions(root)
        got = [xp.match(n) for n, _ in live2]
        want = [XR.matches(steps, relative, ch, LZ.LCLASSES) for _, ch in live2]
        fresh = [ASTXpath(text).match(n) for n, _ in live2]
        scenario.update(edit=edit, edited_position=k, after_edit=got, reference=want, fresh_object=fresh)
        multi = any(s[2] not in (None, "any") and len(s[2]) > 1 for s in steps)
        if got != want or fresh != want:
            e.fail(("index-multi-digit:" if multi else "") + ("reused-xpath-object-answers-for-the-tree-before-the-edit" if fresh == want else "legacy-match-differs-from-reference"), scenario=scenario)
        e.distinct((pno, tno, k, edit))
        if any(want):
            e.count("nonempty_results")
        return scenario

    return harness


def _live_positions(root):
    """(node, chain) of the tree as it is now, by walking the dataclass fields."""
    import dataclasses

    from pyoak.legacy.node import AwareASTNode

    out = []

    def rec(n, chain):
        out.append((n, chain))
        for f in dataclasses.fields(n):
            if f.name in ("origin",):
                continue
            val = getattr(n, f.name)
            if isinstance(val, AwareASTNode):
                rec(val, chain + [(val, f.name, None)])
            elif isinstance(val, (tuple, list)):
                for i, c in enumerate(val):
                    if isinstance(c, AwareASTNode):
                        rec(c, chain + [(c, f.name, i)])

    rec(root, [(root, None, None)])
    return out


def calc_xpath_harness_factory(shapes):
    def harness(e):
        LZ.lreset()
        sno = e.choice(len(shapes), "shape")
        recipe = shapes[sno]
        root = LZ.lbuild(recipe)
        ok = root.calculate_xpath()
        pos = _positions(recipe, root)
        scenario = {"tree": LZ.ldescribe(recipe)}
        if ok is not True:
            e.fail("calculate_xpath-refused-attached-root", scenario=scenario)
        for n, _r, chain in pos:
            want = f"/@root[0]{type(root).__name__}" + "".join(f"/@{f}[{i if i else 0}]{type(c).__name__}" for c, f, i in chain[1:])
            if n.xpath != want:
                scenario.update(node=want, got=n.xpath)
                e.fail("calculated-xpath-wrong", scenario=scenario)
        # a non-root node refuses
        if len(pos) > 1 and pos[1][0].calculate_xpath() is not False:
            e.fail("calculate_xpath-on-non-root", scenario=scenario)
        # recalculation after an edit in place (removal shifts the later siblings, a replacement
        # puts a node without a path into the tree): again every node carries its own path
        edit = "none"
        if len(pos) > 1:
            k = 1 + e.choice(len(pos) - 1, "edited_node")
            edit = e.pick(["replace_with(None)", "replace_with(new leaf)", "replace(v=...)"], "edit")
            target = pos[k][0]
            try:
                if edit == "replace_with(None)":
                    target.replace_with(None)
                elif edit == "replace_with(new leaf)":
                    target.replace_with(LZ.LLeaf(v=4242))
                else:
                    if not hasattr(target, "v"):
                        e.assume(False)
                    target.replace(v=4343)
            except Exception:  # noqa: BLE001 -- an edit the tree does not admit: nothing to recalculate
                e.assume(False)
            scenario.update(edit=f"{edit} at {'/'.join(f'{f}[{i}]' if i is not None else str(f) for _c, f, i in pos[k][2][1:])}")
            if root.calculate_xpath() is not True:
                e.fail("calculate_xpath-refused-attached-root", scenario=scenario)
            for n, chain in _live_positions(root):
                want = f"/@root[0]{type(root).__name__}" + "".join(f"/@{f}[{i if i else 0}]{type(c).__name__}" for c, f, i in chain[1:])
                if n.xpath != want:
                    scenario.update(node=want, got=n.xpath)
                    e.fail("calculated-xpath-wrong:after-edit", scenario=scenario)
        e.distinct((sno, edit, scenario.get("edit")))
        return scenario

    return harness


def malformed_harness(e):
    from pyoak.legacy.match.error import ASTXpathDefinitionError
    from pyoak.legacy.match.xpath import ASTXpath

    LZ.lreset()
    text = e.pick(MALFORMED, "text")
    # every construction of a malformed text is rejected, not only the first one in a process;
    # a well-formed text constructed in between does not change that
    outcomes = []
    for attempt in ("first", "second", "after-a-well-formed-one"):
        if attempt == "after-a-well-formed-one":
            ASTXpath("//LLeaf")
        try:
            ASTXpath(text)
            outcome = "accepted"
        except ASTXpathDefinitionError:
            outcome = "definition-error"
        except Exception as ex:  # noqa: BLE001
            outcome = f"other:{type(ex).__name__}"
        outcomes.append(outcome)
        if outcome != "definition-error":
            e.fail("malformed-xpath-not-rejected-with-definition-error" + ("" if attempt == "first" else ":on-a-repeated-construction"), scenario={"text": text, "outcomes": outcomes})
    e.distinct(text)
    return {"text": text, "outcome": outcomes}


def _x_runner(tier: str, seed: int, workers: int):
    from xh import c20_x
    from xh.runner import run_obligations

    return run_obligations("xh.c20_x", c20_x.QUICK, 120 if tier == "quick" else 300, workers=workers, signatures=c20_x.SIGNATURES)


def replay_obligation(payload):
    from xh.runner import replay_call

    return replay_call(payload)


def spec(tier: str, seed: int) -> Spec:
    n = 5 if tier == "quick" else 6
    small = LZ.all_lshapes(n - 1, 3)
    big = [LZ.lnumber(x) for x in LZ.lshapes(n, 3)]
    shapes = small + big[:: (3 if tier == "quick" else 4)]
    chunk = 6
    lazyv = "lazy: prune/filter bit per node, skip_self, bottom_up, exact_type; selectors: shape, start node, mode"
    fams = [Family(f"trav[{k}:{k + chunk}]", make_traversal_harness(shapes[k : k + chunk]), variables=lazyv) for k in range(0, len(shapes), chunk)]
    for k, shp in enumerate(_detached_twin_shapes()):
        fams.append(Family(f"trav-detached-trees-with-equal-ids[{k}]", make_traversal_harness([shp], detached=True), variables=lazyv + "; trees built with create_detached=True whose content-equal cousins share an id"))
    for k, shp in enumerate(_equal_descendant_shapes()):
        fams.append(Family(f"trav-start-node-equal-to-a-descendant[{k}]", make_traversal_harness([shp]), variables=lazyv + "; node class whose child fields are compare=False"))
    paths = lpath_space(tier)
    pch = max(1, len(paths) // 48)
    fams += [Family(f"xpath[{k}:{k + pch}]", make_xpath_harness(paths[k : k + pch]), variables="selectors: xpath derivation, tree") for k in range(0, len(paths), pch)]
    rp = paths[:: (23 if tier == "quick" else 7)]
    rch = max(1, len(rp) // 16)
    fams += [Family(f"xpath-object-reused-across-edits[{k}:{k + rch}]", make_reused_xpath_harness(rp[k : k + rch]), variables="selectors: xpath derivation, tree, edited position, kind of in-place edit") for k in range(0, len(rp), rch)]
    cs = LZ.all_lshapes(n, 3) + LTREES
    fams.append(Family("calculate_xpath", calc_xpath_harness_factory(cs), variables="selector: tree"))
    fams.append(Family("malformed", malformed_harness, variables="selector: malformed text from a pool"))
    return Spec(
        families=fams,
        obligation_runners=[_x_runner],
        functions=FUNCTIONS,
        bounds={"traversal": f"all legacy trees up to {n - 1} nodes and every {3 if tier == 'quick' else 4}th shape with {n} nodes, depth 3 ({len(shapes)} shapes; tuple, list, optional, required child fields), start at root or first child", "xpaths": len(paths), "trees_for_xpath": len(LTREES), "malformed_texts": len(MALFORMED), "X": "digit lists up to 4 digits, element lists up to 5"},
        rule="a case = one path: (shape, start, mode, consulted predicate bits) for traversal; (xpath, tree) for match; tree for calculate_xpath; distinct by those tuples",
        variables="lazy booleans (prune/filter per node, skip_self, bottom_up, exact_type); selectors (shape, xpath, tree); data: digits (X)",
        assumptions=["predicates are functions of the node", "lark runs concretely on every generated text"],
        outside=["trees beyond the bound", "xpaths longer than 3 steps", "malformed texts outside the pool (C17 is not applicable)"],
    )


def _plant_skip_self_ignored():
    import pyoak.legacy.node as N

    orig = N.AwareASTNode.bfs

    def bfs(self, prune=None, filter=None, skip_self=False):
        return orig(self, prune=prune, filter=filter, skip_self=False)

    N.AwareASTNode.bfs = bfs


PLANTED = {"bfs_skip_self_ignored": _plant_skip_self_ignored}
