"""C16 -- serialization options apply to the whole call and to nothing after it.

Engine P: every option is a lazy symbolic boolean consulted by the real
__post_serialize__ / _serialize of each nested object; a field-level serialize hook
consults a lazy symbolic "fail at the k-th nested object" bit (fault schedule);
call kinds, dialect and input corruption are selectors.
"""
from __future__ import annotations

import copy
from typing import Any

from models.zoo import CLASSES, R, _Hook, build, describe, reset_all
from vcheck.core import Family, Spec

ID = "C16"
FUNCTIONS = [
    "pyoak.serialize:DataClassSerializeMixin.as_dict", "pyoak.serialize:DataClassSerializeMixin.as_obj", "pyoak.serialize:DataClassSerializeMixin.__post_serialize__",
    "pyoak.serialize:DataClassSerializeMixin._serialize", "pyoak.serialize:DataClassSerializeMixin._deserialize", "pyoak.serialize:DataClassSerializeMixin.to_jsonb",
    "pyoak.serialize:DataClassSerializeMixin.from_json", "pyoak.serialize:DataClassSerializeMixin.to_msgpck", "pyoak.serialize:DataClassSerializeMixin.from_msgpck",
    "pyoak.serialize:DataClassSerializeMixin.to_yaml", "pyoak.serialize:DataClassSerializeMixin.from_yaml", "pyoak.node:ASTNode.__post_serialize__", "pyoak.origin:Source._serialize",
]
SER = ["as_dict", "to_json", "to_msgpck", "to_yaml"]
DESER = ["as_obj", "from_json", "from_msgpck", "from_yaml"]


def trees():
    H = lambda p, o=None, kid=None: R("VHook", {"payload": p}, o, kid=kid)  # noqa: E731
    return [
        R("VMany", {}, "a", items=(H(1, "multi"), R("VReq", {}, "xml", child=H(2, "gen")), R("VLeaf", {"v": 3}, "c"))),
        H(1, "a", kid=H(2, None, kid=H(3, "b"))),
        R("VMixed", {"v": 1}, None, first=H(1), items=(H(2, "a"), H(3, "a")), one=None),
        R("VPascal", {"Name": "n", "Zed": 1}, "a", Kid=H(1, None, kid=R("VPascal", {"Name": "m"}, "xml"))),
    ]


TREES = trees()


def _slots_default() -> bool:
    from pyoak.serialize import DataClassSerializeMixin as M

    return getattr(M, "_DataClassSerializeMixin__serialization_options") == {} and getattr(M, "_DataClassSerializeMixin__mashumaro_dialect") is None


def _walk(obj: Any, path: str = "$"):
    if isinstance(obj, dict):
        yield path, obj
        for k, v in obj.items():
            yield from _walk(v, f"{path}.{k}")
    elif isinstance(obj, (list, tuple)):
        for i, v in enumerate(obj):
            yield from _walk(v, f"{path}[{i}]")


def _child_field_names(cls_name: str) -> list[str] | None:
    from dataclasses import fields

    from pyoak.node import ASTNode

    cls = CLASSES.get(cls_name)
    if cls is None:
        return None
    hints = {"VMany": ["items"], "VReq": ["child"], "VHook": ["kid"], "VMixed": ["first", "items", "one"], "VLeaf": [], "VPascal": ["Kid"], "VInh": ["first", "items", "one", "extra"], "VSubLeaf": [], "VOne": ["one"]}
    _ = fields, ASTNode
    return hints.get(cls_name)


def check_output(out: dict, skip_class: bool, sort_keys: bool, dialect: str | None, ordered: bool, optimized: bool = False) -> str | None:
    from pyoak.serialize import TYPE_KEY

    for path, d in _walk(out):
        if d == {} or set(d) == {"idx"}:
            continue
        if optimized and "source_uri" in d and not (dialect == "test" and d.get("source_uri") == "" and d.get("source_type") == ""):
            # index-based sources: every source of the call is an index reference (the test
            # dialect's replacement source aside)
            return f"source written in full under index-based sources at {path}"
        keys = list(d)
        if skip_class:
            if TYPE_KEY in d:
                return f"type tag present under SKIP_CLASS at {path}"
        elif dialect != "test":
            # the test dialect decorates even the empty NoOrigin placeholder with its replacement
            # source; the statement words the tag rule for the default output only
            if TYPE_KEY not in d:
                return f"type tag missing at {path}"
        if sort_keys and ordered:
            rest = [k for k in keys if k != TYPE_KEY]
            if (TYPE_KEY in d and keys[0] != TYPE_KEY) or rest != sorted(rest):
                return f"keys not (tag first, then sorted) at {path}: {keys}"
        if dialect == "explorer" and "content_id" in d:
            want = _child_field_names(d.get(TYPE_KEY, "")) if TYPE_KEY in d else None
            if "_children" not in d or (want is not None and list(d["_children"]) != want):
                return f"_children missing or wrong at {path}"
        if dialect != "explorer" and "_children" in d:
            return f"_children present without the explorer dialect at {path}"
    return None


def _without_tags(data: Any) -> Any:
    from pyoak.serialize import TYPE_KEY

    if isinstance(data, dict):
        return {k: _without_tags(v) for k, v in data.items() if k != TYPE_KEY}
    if isinstance(data, (list, tuple)):
        return [_without_tags(v) for v in data]
    return data


def content_differs(out: Any, baseline: Any, skip_class: bool) -> str | None:
    """An option-carrying as_dict() without a dialect writes the same mappings as the default call
    (key order and type tags aside): options given to EARLIER calls must not add or drop keys."""
    want = _without_tags(baseline) if skip_class else baseline
    if out == want:
        return None
    for (pa, a), (pb, b) in zip(_walk(out), _walk(want)):
        if set(a) != set(b):
            return f"keys at {pa}: got {sorted(a)}, default output has {sorted(b)}"
    return "content differs from the default output"


def _corrupt(data: Any, how: str, where: int) -> Any:
    from pyoak.serialize import TYPE_KEY

    data = copy.deepcopy(data)
    nodes = [d for _, d in _walk(data) if isinstance(d, dict) and "content_id" in d]
    if not nodes:
        return data
    d = nodes[where % len(nodes)]
    if how == "unknown-type":
        d[TYPE_KEY] = "NoSuchClassAnywhere"
    elif how == "missing-id":
        d.pop("id", None)
    return data


def make_harness(n_calls: int, first_kind: str, later_kinds: list[str] | None = None, trees: list[int] | None = None, registry_states: list[str] | None = None):
    def harness(e):
        import msgpack
        import orjson
        import yaml
        from pyoak.node import AST_SERIALIZE_DIALECT_KEY, ASTSerializationDialects
        from pyoak.origin import SOURCE_OPTIMIZED_SERIALIZATION_KEY
        from pyoak.serialize import SerializationOption

        reset_all()
        _Hook.reset()
        tno = e.pick(trees or list(range(len(TREES))), "tree")
        root = build(TREES[tno])
        baseline = copy.deepcopy(root.as_dict())  # a snapshot: the library must not be able to reach it
        clean = {"as_obj": baseline, "from_json": root.to_json(), "from_msgpck": root.to_msgpck(), "from_yaml": root.to_yaml()}
        history: list[str] = []
        scenario: dict[str, Any] = {"tree": describe(TREES[tno]), "calls": history}
        if registry_states:
            # sources of the tree that are (no longer) in the source registry when the call is made
            from pyoak.origin import CodeOrigin, MemoryTextSource, Source, get_code_range

            state = e.pick(registry_states, "source_registry")
            scenario["source_registry"] = state
            if state != "all-registered":
                Source.clear_registry()
            if state == "cleared-then-new-parent-with-a-registered-source":
                root = CLASSES["VReq"](child=root, origin=CodeOrigin(MemoryTextSource(_raw="fresh text", source_uri="fresh"), get_code_range(0, 1, 0, 3, 1, 3)))
                baseline = copy.deepcopy(root.as_dict())  # a snapshot: the library must not be able to reach it
                clean = {"as_obj": baseline, "from_json": root.to_json(), "from_msgpck": root.to_msgpck(), "from_yaml": root.to_yaml()}
        for step in range(n_calls):
            kind = first_kind if step == 0 else e.pick(later_kinds or (SER + DESER), f"call{step}")
            b_skip, b_sort, b_opt = e.bool(f"skip_class{step}"), e.bool(f"sort_keys{step}"), e.bool(f"optimized_sources{step}")
            dialect = e.pick([None, "explorer", "test"], f"dialect{step}")
            opts: dict[str, Any] = {SerializationOption.SKIP_CLASS: b_skip, SerializationOption.SORT_KEYS: b_sort, SOURCE_OPTIMIZED_SERIALIZATION_KEY: b_opt}
            if dialect:
                opts[AST_SERIALIZE_DIALECT_KEY] = ASTSerializationDialects.AST_EXPLORER if dialect == "explorer" else ASTSerializationDialects.AST_TEST
            out = None
            raised = None
            if kind in SER:
                _Hook.count = 0
                _Hook.callback = lambda k, _s=step: e.bool(f"fail{_s}@{k}")
                try:
                    if kind == "as_dict":
                        out = root.as_dict(serialization_options=opts)
                    elif kind == "to_json":
                        variant = e.pick(["to_json-indent", "to_jsonb"] if later_kinds else ["to_json", "to_json-indent", "to_jsonb", "to_jsonb-indent"], f"json_variant{step}")
                        if variant.startswith("to_jsonb"):
                            out = orjson.loads(root.to_jsonb(indent=variant.endswith("indent"), serialization_options=opts))
                        else:
                            out = orjson.loads(root.to_json(indent=variant.endswith("indent"), serialization_options=opts))
                    elif kind == "to_msgpck":
                        out = msgpack.unpackb(root.to_msgpck(serialization_options=opts), raw=False)
                    else:
                        out = yaml.load(root.to_yaml(serialization_options=opts), Loader=yaml.SafeLoader)
                except Exception as ex:  # noqa: BLE001
                    raised = type(ex).__name__
                finally:
                    _Hook.callback = None
            else:
                how = e.pick(["intact", "unknown-type", "missing-id", "top-level-list", "top-level-scalar"], f"corruption{step}")
                where = e.choice(3, f"where{step}") if how in ("unknown-type", "missing-id") else 0
                data = clean[kind]
                if how != "intact":
                    # a document whose top level is no mapping at all is malformed input as well
                    as_dict = [baseline] if how == "top-level-list" else (7 if how == "top-level-scalar" else _corrupt(baseline, how, where))
                    data = {"as_obj": as_dict, "from_json": orjson.dumps(as_dict), "from_msgpck": msgpack.packb(as_dict, use_bin_type=True), "from_yaml": yaml.dump(as_dict)}[kind]
                try:
                    cls = type(root)
                    if kind == "as_obj":
                        cls.as_obj(data, serialization_options=opts)
                    elif kind == "from_json":
                        cls.from_json(data, serialization_options=opts)
                    elif kind == "from_msgpck":
                        cls.from_msgpck(data, serialization_options=opts)
                    else:
                        cls.from_yaml(data, serialization_options=opts)
                except Exception as ex:  # noqa: BLE001
                    raised = type(ex).__name__
                kind = f"{kind}({how})"
            # concrete values of the option bits the call consulted (never forks an undecided bit
            # that matters: an unconsulted option had no effect to check)
            vals = {n: (True if b else False) for n, b in (("skip_class", b_skip), ("sort_keys", b_sort), ("optimized", b_opt)) if _decided(e, b)}
            history.append(f"{kind} options={vals} dialect={dialect} -> {'raised ' + raised if raised else 'returned'}")
            if out is not None:
                err = check_output(out, vals.get("skip_class", False), vals.get("sort_keys", False), dialect, ordered=True, optimized=vals.get("optimized", False))
                if err:
                    scenario.update(problem=err)
                    combo = "+".join(sorted(k for k in ("skip_class", "sort_keys") if vals.get(k)) + ([dialect] if dialect else []) + (["optimized_sources"] if "index-based" in err else []))
                    e.fail(f"nested-object-ignores-option:{combo}", scenario=scenario)
                if kind == "as_dict" and dialect is None and not vals.get("optimized", False):
                    diff = content_differs(out, baseline, vals.get("skip_class", False))
                    if diff:
                        scenario.update(problem=diff)
                        e.fail("option-carrying-call-writes-other-content-than-the-default-call", scenario=scenario)
            # ---- nothing afterwards
            if not _slots_default():
                e.fail("option-slots-not-cleared" + (":after-exception" if raised else ""), scenario=scenario)
            # the caller's own dict is the caller's: editing it after the call changes nothing
            opts[SerializationOption.SKIP_CLASS] = True
            opts[SerializationOption.SORT_KEYS] = True
            after = root.as_dict()
            if after != baseline:
                e.fail("later-default-call-affected" + (":after-exception" if raised else ""), scenario=scenario)
        e.distinct((tno, tuple(history)))
        return {"tree": tno, "calls": list(history)}

    return harness


def dialect_harness(e):
    """The dialect of a call (here: the MessagePack front-end's own dialect, which passes bytes
    through) reaches every nested object, also when the input carries no type tags."""
    from models.zoo import VBin
    from pyoak.serialize import SerializationOption

    reset_all()
    depth = 1 + e.choice(3, "depth")
    tagged = e.flag("type_tags")
    node = None
    for k in range(depth):
        node = VBin(blob=bytes([k, 255 - k]) * (k + 1), kid=node)
    opts = None if tagged else {SerializationOption.SKIP_CLASS: True}
    data = node.to_msgpck(serialization_options=opts)
    blobs = []
    n = node
    while n is not None:
        blobs.append(n.blob)
        n = n.kid
    node.detach()
    scenario = {"depth": depth, "type_tags": tagged}
    try:
        back = VBin.from_msgpck(data)
    except Exception as ex:  # noqa: BLE001
        scenario.update(raised=f"{type(ex).__name__}: {ex}"[:200])
        e.fail("dialect-does-not-reach-nested-object", scenario=scenario)
    got = []
    n = back
    while n is not None:
        got.append(n.blob)
        n = n.kid
    if got != blobs or not _slots_default():
        scenario.update(got=[repr(b) for b in got], expected=[repr(b) for b in blobs])
        e.fail("dialect-does-not-reach-nested-object", scenario=scenario)
    e.distinct((depth, tagged))
    return scenario


def object_values_harness(e):
    """Nodes whose PROPERTY VALUES are serializable pyoak objects (code point, range): the dialect
    and options of a deserialization call hold for every nested object of the call, whatever the
    construction of an earlier sibling does on the way."""
    from mashumaro.dialect import Dialect
    from models.zoo import VAt, VBin, VMany
    from pyoak.origin import CodePoint, CodeRange

    reset_all()

    class HexInts(Dialect):
        serialization_strategy = {int: {"serialize": lambda v: hex(v), "deserialize": lambda s: int(str(s), 16)}}

    order = e.pick(["object-valued-node-first", "object-valued-node-last", "nested"], "order")
    a = lambda k: VAt(at=CodePoint(k, 1, k), span=CodeRange(CodePoint(k, 1, k), CodePoint(k + 2, 1, k + 2)), blob=bytes([k, 200 + k]))  # noqa: E731
    b = lambda k: VBin(blob=bytes([255 - k, k]))  # noqa: E731
    if order == "object-valued-node-first":
        root = VMany(items=(a(1), b(2), a(3), b(4)))
    elif order == "object-valued-node-last":
        root = VMany(items=(b(1), b(2), a(3)))
    else:
        root = VAt(at=CodePoint(5, 1, 5), blob=b"\x01\xfe", kid=VMany(items=(VAt(at=CodePoint(6, 1, 6), kid=b(7)), b(8))))
    front = e.pick(["msgpack", "as_dict+user-dialect", "yaml+user-dialect"], "front_end")
    snap = [(type(i.node).__name__, getattr(i.node, "blob", None), getattr(i.node, "at", None), getattr(i.node, "span", None)) for i in root.dfs()]
    cls = type(root)
    if front == "msgpack":
        data = root.to_msgpck()
    elif front == "as_dict+user-dialect":
        data = root.as_dict(mashumaro_dialect=HexInts)
    else:
        data = root.to_yaml(mashumaro_dialect=HexInts)
    root.detach()
    del root
    scenario = {"order": order, "front_end": front}
    try:
        if front == "msgpack":
            back = cls.from_msgpck(data)
        elif front == "as_dict+user-dialect":
            back = cls.as_obj(data, mashumaro_dialect=HexInts)
        else:
            back = cls.from_yaml(data, mashumaro_dialect=HexInts)
    except Exception as ex:  # noqa: BLE001
        scenario.update(raised=f"{type(ex).__name__}: {ex}"[:240])
        e.fail("dialect-does-not-reach-nested-object", scenario=scenario)
    got = [(type(i.node).__name__, getattr(i.node, "blob", None), getattr(i.node, "at", None), getattr(i.node, "span", None)) for i in back.dfs()]
    if got != snap or not _slots_default():
        scenario.update(got=repr(got)[:300], expected=repr(snap)[:300])
        e.fail("dialect-does-not-reach-nested-object", scenario=scenario)
    e.distinct((order, front))
    return scenario


def options_object_harness(e):
    """The options argument is an ordinary dict of the caller: it may be passed to several calls
    (each of which obeys it) and edited between and after them (which affects no call it was not
    passed to)."""
    import orjson
    from pyoak.serialize import SerializationOption

    reset_all()
    _Hook.reset()
    tno = e.choice(len(TREES), "tree")
    root = build(TREES[tno])
    baseline = copy.deepcopy(root.as_dict())
    sk, so = e.flag("skip_class"), e.flag("sort_keys")
    opts = {SerializationOption.SKIP_CLASS: sk, SerializationOption.SORT_KEYS: so}
    first = e.pick(["as_dict", "to_json", "as_obj", "from_json"], "first_call")
    second = e.pick(["as_dict", "to_json"], "second_call")
    scenario = {"tree": describe(TREES[tno]), "options": {"skip_class": bool(sk), "sort_keys": bool(so)}, "first_call": first, "second_call": second}

    def call(kind):
        if kind == "as_dict":
            return root.as_dict(serialization_options=opts)
        if kind == "to_json":
            return orjson.loads(root.to_json(serialization_options=opts))
        if kind == "as_obj":
            type(root).as_obj(copy.deepcopy(baseline), serialization_options=opts)
            return None
        type(root).from_json(orjson.dumps(baseline), serialization_options=opts)
        return None

    for which, kind in (("first", first), ("second", second)):
        out = call(kind)
        if out is not None:
            err = check_output(out, bool(sk), bool(so), None, ordered=True)
            if err:
                scenario.update(problem=err, call=which)
                e.fail("options-passed-again-are-ignored" if which == "second" else "nested-object-ignores-option:options-object", scenario=scenario)
    opts[SerializationOption.SKIP_CLASS] = not sk
    opts["ast_serialize_dialect"] = "edited by the caller afterwards"
    if root.as_dict() != baseline or not _slots_default():
        e.fail("later-default-call-affected:callers-dict-edited-afterwards", scenario=scenario)
    e.distinct((tno, bool(sk), bool(so), first, second))
    return scenario


def untyped_objects_harness(e):
    """Serializable objects held in an untyped (Any) property are handed to the JSON encoder as
    they are (mashumaro passes untyped values through; on the unchanged tree orjson writes them as
    plain untagged mappings, MessagePack refuses them): how they are written by default is outside
    the claim, but a call with tag suppression still writes no type tag anywhere."""
    import orjson
    from models.zoo import VMany, VTyped
    from pyoak.origin import CodeOrigin, CodePoint, CodeRange, MemoryTextSource
    from pyoak.serialize import TYPE_KEY, SerializationOption

    reset_all()
    src = MemoryTextSource(_raw="abcdef", source_uri="u")
    org = CodeOrigin(src, CodeRange(CodePoint(0, 1, 0), CodePoint(2, 1, 2)))
    held = e.pick(["code-point", "tuple-with-an-origin", "dict-with-an-origin"], "held_value")
    val = {"code-point": CodePoint(3, 1, 3), "tuple-with-an-origin": (org, 1), "dict-with-an-origin": {"o": org, "p": CodePoint(4, 1, 4)}}[held]
    root = VMany(items=(VTyped(a=None), VTyped(a=val, i=1)), origin=org)
    variant = e.pick(["to_json", "to_json-indent", "to_jsonb"], "front_end")
    sort_too = e.flag("sort_keys_as_well")
    opts = {SerializationOption.SKIP_CLASS: True, SerializationOption.SORT_KEYS: sort_too}
    scenario = {"held_value": held, "front_end": variant, "sort_keys_as_well": bool(sort_too)}
    try:
        text = root.to_jsonb(serialization_options=opts) if variant == "to_jsonb" else root.to_json(indent=variant.endswith("indent"), serialization_options=opts)
    except TypeError:
        e.assume(False)  # the encoder refuses the held object: nothing was written
    out = orjson.loads(text)
    tagged = [p for p, d in _walk(out) if TYPE_KEY in d]
    if tagged:
        scenario.update(tagged_mappings=tagged[:6])
        e.fail("nested-object-ignores-option:skip_class:object-in-untyped-property", scenario=scenario)
    if not _slots_default():
        e.fail("option-slots-not-cleared", scenario=scenario)
    e.distinct((held, variant, bool(sort_too)))
    return scenario


def user_dialect_harness(e):
    """A mashumaro dialect given to one call (here: one that writes every int as a tagged string)
    reaches every nested object of that call -- nodes, origins, positions, code points -- and
    nothing afterwards."""
    from mashumaro.dialect import Dialect

    reset_all()
    _Hook.reset()

    class TaggedInts(Dialect):
        serialization_strategy = {int: {"serialize": lambda v: f"i{v}", "deserialize": lambda s: int(str(s)[1:])}}

    class OmitNone(Dialect):
        omit_none = True

    class OmitDefault(Dialect):
        omit_default = True

    from pyoak.serialize import SerializationOption

    tno = e.choice(len(TREES), "tree")
    root = build(TREES[tno])
    baseline = copy.deepcopy(root.as_dict())
    kind = e.pick(["as_dict", "to_yaml"], "call")
    dname = e.pick(["ints-as-tagged-strings", "omit_none", "omit_default"], "user_dialect")
    D = {"ints-as-tagged-strings": TaggedInts, "omit_none": OmitNone, "omit_default": OmitDefault}[dname]
    b_skip, b_sort = e.bool("skip_class0"), e.bool("sort_keys0")
    opts = {SerializationOption.SKIP_CLASS: b_skip, SerializationOption.SORT_KEYS: b_sort}
    scenario: dict[str, Any] = {"tree": describe(TREES[tno]), "call": kind, "user_dialect": dname}
    if kind == "as_dict":
        out = root.as_dict(mashumaro_dialect=D, serialization_options=opts)
    else:
        import yaml

        out = yaml.load(root.to_yaml(mashumaro_dialect=D, serialization_options=opts), Loader=yaml.SafeLoader)
    vals = {n: (True if b else False) for n, b in (("skip_class", b_skip), ("sort_keys", b_sort)) if _decided(e, b)}
    scenario["options"] = vals
    if dname != "ints-as-tagged-strings":
        # the dialect omits keys; the options of the same call still apply to what is written
        err = check_output(out, vals.get("skip_class", False), vals.get("sort_keys", False), None, ordered=True)
        if err and "type tag missing" not in err:
            scenario.update(problem=err)
            e.fail("nested-object-ignores-option:with-user-dialect", scenario=scenario)
        # nothing afterwards: a later call without the dialect, with or without options, writes
        # the default content
        b_skip2, b_sort2 = e.bool("skip_class1"), e.bool("sort_keys1")
        out2 = root.as_dict(serialization_options={SerializationOption.SKIP_CLASS: b_skip2, SerializationOption.SORT_KEYS: b_sort2})
        vals2 = {n: (True if b else False) for n, b in (("skip_class", b_skip2), ("sort_keys", b_sort2)) if _decided(e, b)}
        scenario["later_options"] = vals2
        err = check_output(out2, vals2.get("skip_class", False), vals2.get("sort_keys", False), None, ordered=True) or content_differs(out2, baseline, vals2.get("skip_class", False))
        if err:
            scenario.update(problem=err)
            e.fail("later-call-affected-by-the-dialect-of-an-earlier-call", scenario=scenario)
        if not _slots_default() or root.as_dict() != baseline:
            e.fail("later-default-call-affected", scenario=scenario)
        e.distinct((tno, kind, dname, tuple(sorted(vals.items())), tuple(sorted(vals2.items()))))
        return scenario
    raw = []

    def walk(o, path="$"):
        if isinstance(o, dict):
            for k, v in o.items():
                walk(v, f"{path}.{k}")
        elif isinstance(o, (list, tuple)):
            for i, v in enumerate(o):
                walk(v, f"{path}[{i}]")
        elif isinstance(o, int) and not isinstance(o, bool) and not path.endswith(".payload"):
            # (VHook.payload carries its own field-level serializer, which mashumaro ranks above a dialect)
            raw.append(path)

    walk(out)
    if raw:
        scenario.update(ints_written_without_the_dialect=raw[:6])
        e.fail("nested-object-ignores-option:mashumaro-dialect", scenario=scenario)
    if not _slots_default() or root.as_dict() != baseline:
        e.fail("later-default-call-affected", scenario=scenario)
    e.distinct((tno, kind))
    return scenario


_VER_SOURCE: list[Any] = []


def _ver_source():
    if not _VER_SOURCE:
        from dataclasses import dataclass as _dc
        from pyoak.origin import Source

        @_dc(frozen=True)
        class VerSource(Source):
            """What a user-defined source looks like: one more (int) field."""

            version: int = 3

        _VER_SOURCE.append(VerSource)
    return _VER_SOURCE[0]


def source_table_harness(e):
    """Source.all_as_dict(dialect) is a serialization call like any other: its dialect reaches the
    sources nested in a registered SourceSet, the table equals what as_dict(dialect) writes for
    each registered source, and nothing carries over to the next call."""
    from pathlib import Path

    from mashumaro.dialect import Dialect
    from pyoak.origin import CodeOrigin, FileSource, MemoryTextSource, Source, SourceSet, get_code_range, merge_origins

    reset_all()
    _Hook.reset()

    class TaggedInts(Dialect):
        serialization_strategy = {int: {"serialize": lambda v: f"i{v}"}}

    class UriPaths(Dialect):
        serialization_strategy = {Path: {"serialize": lambda p_: "file:" + p_.as_posix()}}

    VerSource = _ver_source()
    members = e.pick(["file+versioned", "versioned+memory", "file+file"], "members")
    s1 = FileSource(Path("pkg/one.txt")) if members != "versioned+memory" else VerSource("u:two", "Fetched", version=5)
    s2 = {"file+versioned": lambda: VerSource("u:two", "Fetched", version=5), "versioned+memory": lambda: MemoryTextSource("abc", source_uri="m"), "file+file": lambda: FileSource(Path("pkg/two.txt"))}[members]()
    how = e.pick(["merged-origins", "explicit-set", "set-of-a-set"], "nesting")
    if how == "merged-origins":
        rng = get_code_range(0, 1, 0, 2, 1, 2)
        merge_origins(CodeOrigin(s1, rng), CodeOrigin(s2, rng))
    elif how == "explicit-set":
        SourceSet(sources=(s1, s2))
    else:
        SourceSet(sources=(SourceSet(sources=(s1,)), s2))
    dname = e.pick(["ints-as-tagged-strings", "paths-as-uris"], "user_dialect")
    D = TaggedInts if dname == "ints-as-tagged-strings" else UriPaths
    scenario: dict[str, Any] = {"members": members, "nesting": how, "user_dialect": dname}
    baseline = copy.deepcopy(Source.all_as_dict())
    first = e.pick(["table", "table-after-a-node-call-with-options"], "first")
    if first != "table":
        from pyoak.serialize import SerializationOption

        build(TREES[0]).as_dict(serialization_options={SerializationOption.SKIP_CLASS: True})
        baseline = copy.deepcopy(Source.all_as_dict())
    table = Source.all_as_dict(mashumaro_dialect=D)
    each = [s_.as_dict(mashumaro_dialect=D) for s_ in Source.list_registered_sources(exclude_no_source=True)]
    bad = []

    def walk(o, path="$"):
        if isinstance(o, dict):
            for k, v in o.items():
                if k == "relative_path" and dname == "paths-as-uris" and not str(v).startswith("file:"):
                    bad.append(f"{path}.{k}")
                walk(v, f"{path}.{k}")
        elif isinstance(o, (list, tuple)):
            for i, v in enumerate(o):
                walk(v, f"{path}[{i}]")
        elif isinstance(o, int) and not isinstance(o, bool) and dname == "ints-as-tagged-strings":
            bad.append(path)

    walk(table)
    if bad:
        scenario.update(written_without_the_dialect=bad[:6])
        e.fail("nested-object-ignores-option:source-table-dialect", scenario=scenario)
    if table != each:
        scenario.update(table=str(table)[:300], per_source=str(each)[:300])
        e.fail("source-table-differs-from-the-sources-written-one-by-one", scenario=scenario)
    if not _slots_default() or Source.all_as_dict() != baseline:
        e.fail("later-default-call-affected:source-table", scenario=scenario)
    e.distinct((members, how, dname, first))
    return scenario


def explorer_subclass_harness(e):
    """The explorer dialect lists every node's own child fields: a class next to a subclass that adds
    child fields (nested either way round, or written by an earlier call) - and nothing of it stays
    for a call without the dialect."""
    from pyoak.node import AST_SERIALIZE_DIALECT_KEY, ASTSerializationDialects

    reset_all()
    _Hook.reset()
    L = lambda v: R("VLeaf", {"v": v})  # noqa: E731
    base_in_sub = R("VInh", {"v": 1}, None, first=R("VMixed", {"v": 2}, None, first=L(1), items=(), one=None), items=(L(2),), one=None, extra=R("VSubLeaf", {"v": 3, "w": 4}))
    sub_in_base = R("VMixed", {"v": 1}, None, first=R("VInh", {"v": 2}, None, first=L(1), items=(), one=None, extra=L(5)), items=(R("VSubLeaf", {"v": 3, "w": 4}), L(2)), one=None)
    which = e.pick(["base-nested-in-subclass", "subclass-nested-in-base"], "nesting")
    earlier = e.pick(["none", "a-base-class-node-written-with-the-dialect", "a-subclass-node-written-with-the-dialect"], "earlier_call")
    opts = {AST_SERIALIZE_DIALECT_KEY: ASTSerializationDialects.AST_EXPLORER}
    if earlier != "none":
        first = build(R("VMixed", {"v": 9}, None, first=L(9), items=(), one=None) if "base" in earlier else R("VInh", {"v": 9}, None, first=L(9), items=(), one=None, extra=None))
        first.as_dict(serialization_options=dict(opts))
        first.detach()
    recipe = base_in_sub if which.startswith("base") else sub_in_base
    root = build(recipe)
    kind = e.pick(["as_dict", "to_json"], "call")
    if kind == "as_dict":
        out = root.as_dict(serialization_options=dict(opts))
    else:
        import json

        out = json.loads(root.to_json(serialization_options=dict(opts)))
    scenario: dict[str, Any] = {"tree": describe(recipe), "nesting": which, "earlier_call": earlier, "call": kind}
    err = check_output(out, False, False, "explorer", ordered=True)
    if err:
        scenario.update(problem=err)
        e.fail("nested-object-ignores-option:explorer-children-of-a-subclass", scenario=scenario)
    err = check_output(root.as_dict(), False, False, None, ordered=True)
    if err or not _slots_default():
        scenario.update(problem=err)
        e.fail("later-default-call-affected:explorer-children", scenario=scenario)
    e.distinct((which, earlier, kind))
    return scenario


def _decided(e, b) -> bool:
    if isinstance(b, bool):
        return True
    return b.expr.get_id() in e._decided



def _x_runner(tier: str, seed: int, workers: int):
    from xh import c16_x
    from xh.runner import run_obligations

    return run_obligations("xh.c16_x", c16_x.QUICK, 120 if tier == "quick" else 300, workers=workers, signatures=c16_x.SIGNATURES)


def replay_obligation(payload):
    from xh.runner import replay_call

    return replay_call(payload)


def spec(tier: str, seed: int) -> Spec:
    n = 2
    later = ["as_dict"] if tier == "quick" else None
    var = "lazy: SKIP_CLASS, SORT_KEYS, optimized sources per call, fail@k per nested object; selectors: call kinds, dialect, corruption, tree"
    fams = [Family(f"{n}-calls-first-{k}-tree{t}", make_harness(n, k, later, [t]), variables=var) for k in SER + DESER for t in range(len(TREES))]
    states = ["all-registered", "cleared", "cleared-then-new-parent-with-a-registered-source"]
    fams += [Family(f"source-registry-state-{k}", make_harness(1, k, None, [0, 3], states), variables=var + "; selector: which of the tree's sources are in the source registry") for k in (SER if tier != "quick" else ["as_dict", "to_json"])]
    fams.append(Family("user-mashumaro-dialect", user_dialect_harness, variables="selectors: tree, call"))
    fams.append(Family("source-table-with-a-dialect", source_table_harness, variables="selectors: member sources, how the set of sources is nested, dialect, preceding call"))
    fams.append(Family("explorer-dialect-on-a-class-next-to-its-subclass", explorer_subclass_harness, variables="selectors: which of base / subclass is nested in the other, an earlier call with the dialect, call kind"))
    fams.append(Family("options-object-reused-and-edited", options_object_harness, variables="selectors: tree, option values, first and second call kind"))
    fams.append(Family("serializable-objects-in-untyped-properties", untyped_objects_harness, variables="selectors: held value, JSON front-end variant, sort_keys"))
    fams.append(Family("property-values-that-are-serializable-objects", object_values_harness, variables="selectors: sibling order, front-end / dialect"))
    fams.append(Family("msgpack-dialect-on-nested-objects", dialect_harness, variables="selectors: nesting depth, tagged / untagged input"))
    return Spec(
        families=fams,
        obligation_runners=[_x_runner],
        functions=FUNCTIONS,
        bounds={"calls_per_sequence": "2 option-carrying calls (quick: the second is always as_dict with options), each followed by a default as_dict()", "trees": len(TREES), "options": "SKIP_CLASS, SORT_KEYS, SOURCE_OPTIMIZED_SERIALIZATION lazily; dialect none/explorer/test", "fault_schedule": "failure at any nested hooked object (<= 3 per tree)", "corruptions": ["unknown type tag", "missing id", "top-level list", "top-level scalar"]},
        rule="a case = one path = (tree, call sequence, value of every option bit and fault bit the real code consulted, dialect, corruption); distinct by that tuple; non-trivial = at least one option or fault consulted",
        variables="lazy booleans (options, fault schedule); selectors (call kinds, dialect, corruption, tree)",
        assumptions=["key order is checked for every front-end (since fix 5684162 the YAML dumper keeps the order the library wrote)", "one custom mashumaro dialect (ints written as tagged strings) is passed to as_dict / to_yaml; the JSON / MessagePack front-ends pass their own"],
        outside=["sequences longer than 2 option-carrying calls", "faults inside deserialization hooks other than malformed input", "custom mashumaro dialects"],
    )


def _plant_no_finally():
    from pyoak.serialize import DataClassSerializeMixin as M

    def as_dict(self, mashumaro_dialect=None, serialization_options=None):
        if serialization_options is not None:
            getattr(M, "_DataClassSerializeMixin__serialization_options").update(serialization_options)
        setattr(M, "_DataClassSerializeMixin__mashumaro_dialect", mashumaro_dialect)
        ret = self._serialize()
        setattr(M, "_DataClassSerializeMixin__serialization_options", {})
        setattr(M, "_DataClassSerializeMixin__mashumaro_dialect", None)
        return ret

    M.as_dict = as_dict


def _plant_not_cleared_on_deser():
    from pyoak.serialize import DataClassSerializeMixin as M

    def as_obj(cls, value, *, mashumaro_dialect=None, serialization_options=None):
        if serialization_options is not None:
            getattr(M, "_DataClassSerializeMixin__serialization_options").update(serialization_options)
        setattr(M, "_DataClassSerializeMixin__mashumaro_dialect", mashumaro_dialect)
        try:
            return cls._deserialize(value)
        finally:
            setattr(M, "_DataClassSerializeMixin__mashumaro_dialect", None)

    M.as_obj = classmethod(as_obj)


PLANTED = {"ser_opts_no_finally": _plant_no_finally, "ser_opts_not_cleared_on_deser": _plant_not_cleared_on_deser}
