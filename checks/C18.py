"""C18 -- legacy parent-aware trees stay structurally consistent through any history."""
from __future__ import annotations

from checks import legacy_hist as H
from vcheck.core import Family, Spec

ID = "C18"
FUNCTIONS = [
    "pyoak.legacy.node:AwareASTNode.__post_init__", "pyoak.legacy.node:AwareASTNode._attach_inner", "pyoak.legacy.node:AwareASTNode._replace_child",
    "pyoak.legacy.node:AwareASTNode._set_content_id", "pyoak.legacy.node:AwareASTNode._reset_content_id", "pyoak.legacy.node:AwareASTNode.attach",
    "pyoak.legacy.node:AwareASTNode.detach", "pyoak.legacy.node:AwareASTNode.replace", "pyoak.legacy.node:AwareASTNode.replace_with",
    "pyoak.legacy.node:AwareASTNode.duplicate", "pyoak.legacy.node:AwareASTNode.calculate_xpath", "pyoak.legacy.node:ASTTransformVisitor.transform",
    "pyoak.legacy.node:ASTTransformVisitor._transform_children", "pyoak.legacy.node:ASTTransformer.execute",
]


def spec(tier: str, seed: int, which: str = "C18") -> Spec:
    K = 2 if tier == "quick" else 3
    ops = H.NULLARY + H.UNARY + H.BINARY
    var = "selectors: forest, operation, receiver, argument per step"
    if K == 2:
        # quick: every first operation on the first four forests; on the forest with two sequence / optional
        # sequence fields the first operations that touch sequences (the thorough tier has all of them)
        fams = [Family(f"K2-first-{op}", H.make_harness(2, which, [op], n_forests=H.GUIDED_FORESTS), per_path_timeout=3.0, variables=var) for op in ops]
        fams += [Family(f"K2-sequence-forest-first-{op}", H.make_harness(2, which, [op], forest=H.SEQ_FOREST), per_path_timeout=3.0, variables=var) for op in H.SEQ_FIRST_OPS]
    else:
        fams = [Family(f"K3-first-{op}-forest{f}", H.make_harness(3, which, [op], forest=f, last_ops=H.THIRD_OPS), per_path_timeout=3.0, variables=var) for op in ops for f in range(H.GUIDED_FORESTS)]
        # the forest with two sequence / optional sequence fields: histories of 3 after the first operations that touch sequences, of 2 after all others
        fams += [Family(f"K3-first-{op}-forest{H.SEQ_FOREST}", H.make_harness(3, which, [op], forest=H.SEQ_FOREST, last_ops=H.THIRD_OPS), per_path_timeout=3.0, variables=var) for op in H.SEQ_FIRST_OPS]
        fams += [Family(f"K2-sequence-forest-first-{op}", H.make_harness(2, which, [op], forest=H.SEQ_FOREST), per_path_timeout=3.0, variables=var) for op in ops if op not in H.SEQ_FIRST_OPS]
    # guided families (C18 only): a stale predecessor is created first, then a longer history over a
    # reduced alphabet follows
    KS = 4
    later = H.STALE_LATER_QUICK if tier == "quick" else H.STALE_LATER
    firsts = ("replace-noop",) if tier == "quick" else ("replace-noop", "replace-property", "duplicate-detached", "transform-inc")
    if which == "C18":
        # a root detached on its own first, then changes below it and re-attachment by construction
        KD = 3 if tier == "quick" else 4
        for op in ("detach_self", "detach"):
            for f in range(H.GUIDED_FORESTS):
                fams.append(Family(f"detached-K{KD}-{op}-forest{f}", H.make_harness(KD, which, [op], H.DETACHED_LATER, forest=f), per_path_timeout=3.0, variables="selectors: receiver per step; operations after the first from a reduced alphabet"))
        for op in firsts:
            for f in range(H.GUIDED_FORESTS):
                for r in range(5):
                    fams.append(Family(f"stale-K{KS}-{op}-forest{f}-h{r}", H.make_harness(KS, which, [op], later, forest=f, first_recv=r), per_path_timeout=3.0, variables="selectors: receiver per step; operations after the first from a reduced alphabet"))
    if which == "C19":
        KR = 3 if tier == "quick" else 4
        for op in H.DETACHED_WRAPS + ["detach_self"]:
            for f in range(H.GUIDED_FORESTS):
                kk = 4 if op == "detach_self" else KR
                # quick: the root of the first tree is the node detached on its own, and no duplicate afterwards
                recv = 0 if (op == "detach_self" and tier == "quick") else None
                later_ = [o for o in H.REJECT_LATER if o != "duplicate"] if (op == "detach_self" and tier == "quick") else H.REJECT_LATER
                fams.append(Family(f"stale-detached-K{kk}-{op}-forest{f}", H.make_harness(kk, which, [op], later_, forest=f, first_recv=recv), per_path_timeout=3.0, variables="selectors: receiver per step; operations after the first from a reduced alphabet"))
    if which == "C19":
        for f in range(H.GUIDED_FORESTS):
            fams.append(Family(f"id-sharing-clone-K3-forest{f}", H.make_harness(3, which, ["duplicate-detached"], ["detach"] if tier == "quick" else H.CLONE_LATER, forest=f, last_ops=H.CLONE_LATER_QUICK if tier == "quick" else None), per_path_timeout=3.0, variables="selectors: receiver / argument per step; first a detached clone (same id as its original), then detach / constructions / replacements over both"))
    if which == "C19":
        # two detached wrappers around one attached node, then a construction over both wrappers
        for f in range(H.GUIDED_FORESTS):
            fams.append(Family(f"shared-child-wrappers-K3-forest{f}", H.make_harness(3, which, ["wrap-detached-tuple"], ["wrap-detached-required", "wrap-detached-tuple"], forest=f, last_ops=["wrap-pair", "replace-child", "attach"]), per_path_timeout=3.0, variables="selectors: receiver / argument per step"))
    if which == "C19":
        # ... and the same with a DETACHED shared node (a root detached first, then two detached wrappers)
        for f, recv in (((3, 2),) if tier == "quick" else ((0, 0), (1, 4), (2, 4), (3, 2))):
            fams.append(Family(f"shared-detached-child-K4-forest{f}", H.make_harness(4, which, ["detach"], ["wrap-detached-required", "wrap-detached-tuple"], forest=f, first_recv=recv, last_ops=["wrap-pair", "attach"]), per_path_timeout=3.0, variables="selectors: receiver / argument per step"))
    if which == "C19":
        # a detached node that carries the id of a registered node elsewhere (a detached wrapper equal to
        # the real parent of its child, or a detached clone) is then offered as replacement / child /
        # sibling: rejected at the attach step, and nothing -- the registered twin included -- may change
        twin_later = ["replace_with", "replace-child", "wrap-pair", "wrap-abstract-sequence", "transform-return-existing"]
        for op in H.DETACHED_WRAPS + ["duplicate-detached"]:
            for f in range(H.GUIDED_FORESTS):
                fams.append(Family(f"detached-twin-K2-{op}-forest{f}", H.make_harness(2, which, [op], twin_later, forest=f), per_path_timeout=3.0, variables="selectors: receiver / argument per step"))
                if tier != "quick":
                    fams.append(Family(f"detached-twin-K3-{op}-forest{f}", H.make_harness(3, which, [op], twin_later + ["detach", "detach_self"], forest=f), per_path_timeout=3.0, variables="selectors: receiver / argument per step"))
    if which == "C18":
        # content-equal twins of inner nodes (in one tree and across roots): upward queries follow objects, not content
        for op in ("replace-property", "replace-noop", "duplicate", "wrap-tuple", "detach", "transform-inc", "replace_with-None", "new-leaf-1", "wrap-pair"):
            fams.append(Family(f"twin-branches-K2-first-{op}", H.make_harness(2, which, [op], forest=H.TWIN_FOREST), per_path_timeout=3.0, variables=var + "; forest with content-equal branches"))
    # nodes that are falsy in a boolean context: histories of 2 on their own forest
    for op in ("duplicate-detached", "detach", "detach_self", "replace_with-None", "new-leaf-1", "replace-noop") + (("wrap-detached-tuple",) if which == "C19" else ()):
        fams.append(Family(f"falsy-nodes-K2-first-{op}", H.make_harness(2, which, [op], forest=H.FALSY_FOREST), per_path_timeout=3.0, variables=var + "; forest with falsy node classes"))
    return Spec(
        families=fams,
        functions=FUNCTIONS,
        bounds={"history_length": f"{K} (thorough: the third operation from {H.THIRD_OPS})" if K == 3 else 2, "guided_histories": f"C18: length {KS}, first operation in {firsts}, later operations in {later}; C19: a detached wrapper / detach_self first, then {H.REJECT_LATER}", "forests": f"{H.FALSY_FOREST} + one with falsy nodes (K = 2 after a reduced set of first operations)", "operations": ops, "handles": f"<= {H.MAX_HANDLES} (designated nodes of the initial forest plus results)"},
        rule="a case = (initial forest, K operations each with receiver / argument); after every successful operation the invariant is evaluated on every attached node; distinct by (forest, history text)",
        variables="selectors only (bounded exploration of operation histories); per-path watchdog 3 s",
        assumptions=[
            "histories that put one node object at two attached positions are cut (statement precondition), including replace_with / constructor / replace arguments that contain or are contained in the receiver",
            "'independently built equal tree' = the same structure constructed normally while AwareASTNode._nodes is swapped for an empty registry",
            "an operation ending in an undocumented exception is neither successful nor a documented rejection: counted, not judged",
        ],
        outside=[f"histories longer than {K}", "universes beyond the three initial forests", "custom visitor rules beyond the six listed"],
    )


def _plant_no_content_id_propagation():
    import pyoak.legacy.node as N

    def _reset(self):
        self._set_content_id()

    N.AwareASTNode._reset_content_id = _reset


def _plant_index_not_shifted():
    import pyoak.legacy.node as N

    orig = N.AwareASTNode._replace_child

    def rc(self, old, field, index, new):
        if new is None and index is not None:
            seq = getattr(self, field.name)
            setattr(self, field.name, type(seq)([*seq[:index], *seq[index + 1 :]]))
            self._reset_content_id()
            return
        return orig(self, old, field, index, new)

    N.AwareASTNode._replace_child = rc


PLANTED = {"legacy_no_content_id_propagation": _plant_no_content_id_propagation, "legacy_index_not_shifted": _plant_index_not_shifted}
