"""C03 -- the registry holds exactly the live, not-detached nodes under unique ids.

Engine P over bounded histories of public operations with a ghost-state oracle
(DESIGN appendix A.5).  Operation, receiver and argument of every step are
selectors; `strict` of Cls.get is a lazy symbolic boolean; ID_DIGEST_SIZE in {1, 8}.
"""
from __future__ import annotations

import dataclasses
import gc
import weakref
from typing import Any

from models.zoo import VBase, VLeaf, VMany, VSubLeaf, reset_all
from vcheck.core import Family, Spec

ID = "C03"
FUNCTIONS = [
    "pyoak.node:ASTNode.__post_init__",
    "pyoak.node:_get_next_unique_id",
    "pyoak.node:ASTNode._deserialize",
    "pyoak.node:ASTNode.get",
    "pyoak.node:ASTNode.get_any",
    "pyoak.node:ASTNode.detach",
    "pyoak.node:ASTNode.detach_self",
    "pyoak.node:ASTNode.replace",
    "pyoak.node:ASTNode.duplicate",
]

OPS = ["leaf", "parent", "duplicate", "dc_replace", "replace", "replace_raises", "replace_raises_late", "detach", "detach_self", "roundtrip", "roundtrip_after_detach", "drop"]
# guided-only operations: save_detach / load_saved (a payload that outlives its node) and
# replace_rejected_after_registration (a subclass __post_init__ that validates AFTER the base class has
# registered the new node rejects a replace() that leaves the id pre-image unchanged)

_COLLIDE: dict[int, int] = {}


def _colliding_value() -> int:
    """A value v != 0 such that VLeaf(v) and VLeaf(0) share their 1-byte id (concrete search)."""
    if 1 not in _COLLIDE:
        from pyoak import config
        from pyoak.node import NODE_REGISTRY

        old = config.ID_DIGEST_SIZE
        config.ID_DIGEST_SIZE = 1
        try:
            NODE_REGISTRY.clear()
            base = VLeaf(v=0).id
            v = 1
            while True:
                NODE_REGISTRY.clear()
                if VLeaf(v=v).id == base:
                    break
                v += 1
            _COLLIDE[1] = v
        finally:
            config.ID_DIGEST_SIZE = old
            NODE_REGISTRY.clear()
    return _COLLIDE[1]


def _colliding_other_class_value() -> int:
    """A value w such that VNonCmp(v=w) -- a class unrelated to VLeaf -- and VLeaf(0) share their
    1-byte id (concrete search)."""
    if 2 not in _COLLIDE:
        from models.zoo import VNonCmp
        from pyoak import config
        from pyoak.node import NODE_REGISTRY

        old = config.ID_DIGEST_SIZE
        config.ID_DIGEST_SIZE = 1
        try:
            NODE_REGISTRY.clear()
            base = VLeaf(v=0).id
            w = 0
            while True:
                NODE_REGISTRY.clear()
                if VNonCmp(v=w).id == base:
                    break
                w += 1
            _COLLIDE[2] = w
        finally:
            config.ID_DIGEST_SIZE = old
            NODE_REGISTRY.clear()
    return _COLLIDE[2]


def _kids(n: Any) -> list[Any]:
    out = []
    for f in dataclasses.fields(n):
        v = getattr(n, f.name)
        if isinstance(v, VBase):
            out.append(v)
        elif isinstance(v, tuple):
            out.extend(c for c in v if isinstance(c, VBase))
    return out


def _closure(handles: list[Any]) -> dict[int, Any]:
    seen: dict[int, Any] = {}
    stack = [h for h in handles if h is not None]
    while stack:
        n = stack.pop()
        if id(n) in seen:
            continue
        seen[id(n)] = n
        stack.extend(_kids(n))
    return seen


def _content(n: Any) -> tuple:
    return (type(n).__name__, getattr(n, "v", None), getattr(n, "w", None), tuple(_content(c) for c in _kids(n)))


def _idkey(n: Any) -> tuple:
    return (type(n).__name__, n.origin.fqn, getattr(n, "v", None), getattr(n, "w", None), tuple((_content(c), c.origin.fqn) for c in _kids(n)))


def make_harness(K: int, first_ops: list[str], digest_sizes: list[int], max_handles: int = 4, forced: dict[int, str] | None = None, restrict: dict[int, list[str]] | None = None, other_class_leaf: bool = False, validated_leaf: bool = False):
    forced = forced or {}
    restrict = restrict or {}
    def harness(e):
        from pyoak import config
        from pyoak.node import NODE_REGISTRY, ASTNode

        reset_all()
        size = e.pick(digest_sizes, "digest_size")
        collide = _colliding_value()
        collide_other = _colliding_other_class_value() if other_class_leaf else None
        saved: list[Any] = []  # payloads written by save_detach: (class, dict)
        reset_all()
        config.ID_DIGEST_SIZE = size
        strict = e.bool("strict")
        handles: list[Any] = []
        gone: set[int] = set()  # id(obj) of referenced objects that were detached / replaced away
        base_ids: dict[tuple, str] = {}
        history: list[str] = []
        scenario = {"digest_size": size, "history": history}

        def registered_twin(key: tuple, exclude: Any = None) -> bool:
            for o in _closure(handles).values():
                if o is exclude or id(o) in gone:
                    continue
                if _idkey(o) == key:
                    return True
            return False

        def base_taken(base: str, exclude: Any) -> bool:
            for o in _closure(handles).values():
                if o is exclude or id(o) in gone:
                    continue
                if o.id.split("_")[0] == base.split("_")[0]:
                    return True
            return False

        def note_created(new: Any, twin_before: bool, collision_before: bool) -> None:
            """id determinism: created while no registered node has the same id pre-image
            (and, to stay within what the statement can mean under colliding digests, no
            registered node shares the base digest) -> same id every time."""
            if twin_before:
                return
            k = _idkey(new)
            if collision_before:
                # another node of different content holds the base digest: the statement still
                # applies (no registered node has this class / origin / content / children); the id
                # may carry a suffix, but with the same nodes registered under that base it is the
                # same suffix every time, whatever was created and dropped in between
                base = new.id.split("_")[0]
                holders = frozenset(o.id for o in _closure(handles).values() if o is not new and id(o) not in gone and o.id.split("_")[0] == base)
                k = (k, holders)
            if k in base_ids and base_ids[k] != new.id:
                scenario.update(idkey=repr(k), first_id=base_ids[k], now_id=new.id)
                e.fail("id-not-deterministic", scenario=scenario)
            base_ids.setdefault(k, new.id)

        def predicted_base(cls, kw) -> tuple[bool, bool]:
            # is a twin / digest collision registered right now?  Evaluated on a probe built in a
            # scratch registry so that the probe itself never touches the real registry.
            saved = dict(NODE_REGISTRY)
            NODE_REGISTRY.clear()
            try:
                probe = cls(**kw)
                key, pid = _idkey(probe), probe.id
            finally:
                NODE_REGISTRY.clear()
                NODE_REGISTRY.update(saved)
            del probe
            return registered_twin(key), base_taken(pid, None)

        def check_invariants(step: str) -> None:
            for key, obj in list(NODE_REGISTRY.items()):
                if obj.id != key:
                    scenario.update(after=step, registry_key=key, node_id=obj.id)
                    e.fail("registry-key-differs-from-node-id", scenario=scenario)
            live = _closure(handles)
            ids: dict[str, Any] = {}
            for oid, n in live.items():
                found = ASTNode.get_any(n.id)
                if oid in gone:
                    if found is n:
                        scenario.update(after=step, node=repr(_content(n)), id=n.id)
                        e.fail("detached-node-still-returned", scenario=scenario)
                    continue
                if found is not n:
                    scenario.update(after=step, node=repr(_content(n)), id=n.id, found=None if found is None else repr(_content(found)))
                    e.fail("live-node-not-returned" if found is None else "other-object-returned-under-id", scenario=scenario)
                if n.id in ids:
                    scenario.update(after=step, id=n.id)
                    e.fail("duplicate-ids-among-registered", scenario=scenario)
                ids[n.id] = n
                sentinel = object()
                own = type(n).get(n.id, sentinel, strict)
                st = True if strict else False
                if own is not n:
                    scenario.update(after=step, strict=st, cls=type(n).__name__)
                    e.fail("get-own-class-does-not-return-node", scenario=scenario)
                sup = VBase.get(n.id, sentinel, strict)
                if (sup is n) != (not st) or (sup is not n and sup is not sentinel):
                    scenario.update(after=step, strict=st, cls=type(n).__name__, via="VBase")
                    e.fail("get-superclass-wrong", scenario=scenario)
                other = VSubLeaf if not isinstance(n, VSubLeaf) else VMany
                oth = other.get(n.id, sentinel, strict)
                if oth is not sentinel:
                    scenario.update(after=step, strict=st, cls=type(n).__name__, via=other.__name__)
                    e.fail("get-unrelated-class-returns-node", scenario=scenario)

        for step in range(K):
            allowed = first_ops if step == 0 and first_ops else OPS
            ops = [o for o in allowed if o in ("leaf",) or handles]
            if len(handles) >= max_handles:
                ops = [o for o in ops if o not in ("leaf", "parent", "duplicate", "dc_replace", "replace", "roundtrip", "roundtrip_after_detach")] or ["drop"]
            if step in restrict:
                ops = [o for o in ops if o in restrict[step]]
            if step in forced:
                if forced[step] not in ops and not (forced[step] in ("save_detach", "load_saved", "replace_rejected_after_registration", "query", "parent_pair") and handles):
                    e.assume(False)
                op = forced[step]
            else:
                op = e.pick(ops, f"op{step}")
            if op == "leaf":
                v = e.pick([0, collide] + (["other-class"] if other_class_leaf else []), f"val{step}")
                if v == "other-class":
                    from models.zoo import VNonCmp

                    lcls, v = VNonCmp, collide_other
                elif validated_leaf:
                    from models.zoo import VValidated

                    lcls = VValidated
                else:
                    lcls = VLeaf
                tw, col = predicted_base(lcls, {"v": v})
                n = lcls(v=v)
                history.append(f"h{len(handles)} = {lcls.__name__}(v={v})")
                note_created(n, tw, col)
                handles.append(n)
            else:
                hi = e.choice(len(handles), f"recv{step}")
                h = handles[hi]
                if h is None:
                    e.assume(False)
                if op == "parent":
                    tw, col = predicted_base(VMany, {"items": (h,)})
                    n = VMany(items=(h,))
                    history.append(f"h{len(handles)} = VMany(items=(h{hi},))")
                    note_created(n, tw, col)
                    handles.append(n)
                elif op == "parent_pair":
                    # a parent over two handles (possibly twins: a stale node and the node that took over its id)
                    hj = e.choice(len(handles), f"second{step}")
                    h2 = handles[hj]
                    if h2 is None or h2 is h:
                        e.assume(False)
                    tw, col = predicted_base(VMany, {"items": (h, h2)})
                    n = VMany(items=(h, h2))
                    history.append(f"h{len(handles)} = VMany(items=(h{hi}, h{hj}))")
                    note_created(n, tw, col)
                    handles.append(n)
                    h2 = None
                elif op == "duplicate":
                    n = h.duplicate()
                    history.append(f"h{len(handles)} = h{hi}.duplicate()")
                    handles.append(n)
                elif op == "dc_replace":
                    if not isinstance(h, VLeaf):
                        e.assume(False)
                    n = dataclasses.replace(h, v=h.v + 100)
                    history.append(f"h{len(handles)} = dataclasses.replace(h{hi}, v={h.v + 100})")
                    handles.append(n)
                elif op == "replace":
                    same = e.flag(f"same_content{step}")
                    kw = ({"v": h.v} if same else {"v": h.v + 100}) if hasattr(h, "v") else ({"items": h.items} if same else {"items": ()})
                    n = h.replace(**kw)
                    gone.add(id(h))
                    history.append(f"h{len(handles)} = h{hi}.replace({kw if hasattr(h, 'v') else ('items=same' if same else 'items=()')})")
                    if type(n) is not type(h):
                        e.fail("replace-changes-class", scenario=scenario)
                    handles.append(n)
                elif op == "replace_raises":
                    before = {k: id(v) for k, v in NODE_REGISTRY.items()}
                    try:
                        h.replace(no_such_field=1)
                        raised = False
                    except Exception:  # noqa: BLE001
                        raised = True
                    history.append(f"h{hi}.replace(no_such_field=1)  # raises")
                    after = {k: id(v) for k, v in NODE_REGISTRY.items()}
                    if not raised or before != after:
                        scenario.update(raised=raised, before=sorted(before), after=sorted(after))
                        e.fail("failed-replace-changes-registry", scenario=scenario)
                elif op == "replace_raises_late":
                    # the construction of the new node fails inside __post_init__ (after the original
                    # was taken out of the registry), with an error other than TypeError / ValueError
                    before = {k: id(v) for k, v in NODE_REGISTRY.items()}
                    try:
                        h.replace(origin=None)
                        raised = False
                    except Exception:  # noqa: BLE001
                        raised = True
                    history.append(f"h{hi}.replace(origin=None)  # raises inside __post_init__")
                    after = {k: id(v) for k, v in NODE_REGISTRY.items()}
                    if not raised or before != after:
                        scenario.update(raised=raised, before=sorted(before), after=sorted(after))
                        e.fail("failed-replace-changes-registry", scenario=scenario)
                elif op == "replace_rejected_after_registration":
                    if not hasattr(h, "note"):
                        e.assume(False)
                    before = {k: id(v) for k, v in NODE_REGISTRY.items()}
                    try:
                        h.replace(note="bad")
                        raised = False
                    except Exception:  # noqa: BLE001
                        raised = True
                    gc.collect()
                    history.append(f"h{hi}.replace(note='bad')  # rejected by the subclass after registration")
                    after = {k: id(v) for k, v in NODE_REGISTRY.items()}
                    if not raised or before != after:
                        scenario.update(raised=raised, before=sorted(before), after=sorted(after))
                        e.fail("failed-replace-changes-registry", scenario=scenario)
                elif op == "query":
                    # read-only library calls on the node: none of them may keep it (or its subtree) alive
                    kind = e.pick(["find", "findall", "xpath-object", "pattern", "multi-pattern", "Tree", "to_tree", "traversals", "visitor", "serialize", "rich", "eq-hash"], f"query{step}")
                    from pyoak.match.pattern import MultiPatternMatcher, NodeMatcher
                    from pyoak.match.xpath import ASTXpath
                    from pyoak.tree import Tree
                    from pyoak.visitor import ASTTransformVisitor

                    if kind == "find":
                        h.find("//VLeaf"), h.find("/VMany/@items[0]VLeaf")
                    elif kind == "findall":
                        list(h.findall("//VLeaf")), list(h.findall("//@items VBase"))
                    elif kind == "xpath-object":
                        xp = ASTXpath("//VBase")
                        list(xp.findall(h)), xp.match(h, h)
                        del xp
                    elif kind == "pattern":
                        NodeMatcher.from_pattern("(* @v -> x)")[0].match(h), NodeMatcher.from_pattern("(VMany @items=[* -> t])")[0].match(h)
                    elif kind == "multi-pattern":
                        MultiPatternMatcher([("a", "(VMany @items -> i)"), ("b", "(* )")]).match(h)
                    elif kind == "Tree":
                        t_ = Tree(h)
                        t_.get_depth(h), t_.get_xpath(h), t_.is_in_tree(h)
                        del t_
                    elif kind == "to_tree":
                        h.to_tree()
                    elif kind == "traversals":
                        list(h.dfs()), list(h.bfs()), list(h.gather(VLeaf)), h.children
                    elif kind == "visitor":
                        ASTTransformVisitor().transform(h)
                    elif kind == "serialize":
                        h.as_dict(), h.to_json(), h.to_msgpck(), h.to_yaml()
                    elif kind == "rich":
                        h.__rich__(), repr(h), str(h)
                    else:
                        h == h, hash(h), {h: 1}, h.is_equal(h)
                    history.append(f"{kind}(h{hi})  # read-only query")
                elif op == "detach":
                    h.detach()
                    for o in _closure([h]):
                        gone.add(o)
                    history.append(f"h{hi}.detach()")
                elif op == "detach_self":
                    was_gone = id(h) in gone
                    ret = h.detach_self()
                    gone.add(id(h))
                    history.append(f"h{hi}.detach_self()  # -> {ret}")
                    if ret is not (not was_gone):
                        scenario.update(returned=ret, was_detached_before=was_gone)
                        e.fail("detach_self-return-value", scenario=scenario)
                elif op == "roundtrip":
                    n = type(h).as_obj(h.as_dict())
                    history.append(f"h{len(handles)} = as_obj(h{hi}.as_dict())")
                    handles.append(n)
                elif op == "roundtrip_after_detach":
                    data = h.as_dict()
                    h.detach()
                    for o in _closure([h]):
                        gone.add(o)
                    n = type(h).as_obj(data)
                    history.append(f"h{len(handles)} = as_obj(h{hi}.as_dict()) after h{hi}.detach()")
                    handles.append(n)
                elif op == "save_detach":
                    # the payload outlives the node: written now, read back at a later step
                    saved.append((type(h), h.as_dict()))
                    h.detach()
                    for o in _closure([h]):
                        gone.add(o)
                    history.append(f"saved = h{hi}.as_dict(); h{hi}.detach()")
                elif op == "load_saved":
                    if not saved:
                        e.assume(False)
                    cls_, data = saved[-1]
                    n = cls_.as_obj(data)
                    history.append(f"h{len(handles)} = as_obj(saved)")
                    if id(n) in gone:
                        scenario.update(returned=repr(_content(n)))
                        e.fail("deserialization-returns-a-detached-node", scenario=scenario)
                    handles.append(n)
                elif op == "drop":
                    before = _closure(handles)
                    refs = {oid: weakref.ref(o) for oid, o in before.items()}
                    handles[hi] = None
                    h = n = None
                    del before
                    still = _closure(handles)
                    dead_expected = [oid for oid in refs if oid not in still]
                    if any(refs[oid]() is not None for oid in dead_expected):
                        gc.collect()
                    for oid in dead_expected:
                        if refs[oid]() is not None:
                            scenario.update(after=f"drop h{hi}")
                            e.fail("dropped-node-kept-alive", scenario=scenario)
                        gone.discard(oid)
                    history.append(f"del h{hi}")
                    e.count("drops")
            n = h = None  # the harness itself must not keep nodes alive
            check_invariants(history[-1])
        e.distinct((size, tuple(h.split("#")[0] for h in history)))
        return {"digest_size": size, "history": list(history)}

    return harness


# (class, arguments of the first creation, arguments of the second creation): the two differ at
# most in state that is neither comparable content nor origin nor a direct child
_SAME_PREIMAGE = [
    ("VLeaf", {"v": 1}, {"v": 1}),
    ("VNonCmp", {"v": 1, "note": "first"}, {"v": 1, "note": "second"}),
    ("VNonInit", {"v": 1}, {"v": 1}),
    ("VStamp", {"v": 1}, {"v": 1}),
    ("VTyped", {"i": 1, "nc": 1}, {"i": 1, "nc": 2}),
    ("VSlot", {"v": 1}, {"v": 1}),
    ("VRich", {}, {}),
    ("VFalsy", {}, {}),
]


def determinism_harness(e):
    """The id clause on every kind of field declaration: a node re-created while its predecessor
    is no longer registered gets the same id, whatever the non-comparable state."""
    from models.zoo import CLASSES, origin
    from pyoak import config
    from pyoak.node import NODE_REGISTRY

    size = e.pick([1, 8], "digest_size")
    reset_all()
    config.ID_DIGEST_SIZE = size
    cname, kw1, kw2 = e.pick(_SAME_PREIMAGE, "class")
    cls = CLASSES[cname]
    okey = e.pick([None, "a", "xml"], "origin")
    with_kid = "kid" in {f.name for f in dataclasses.fields(cls)} and e.flag("with_child")
    kid = VLeaf(v=5) if with_kid else None

    def make(kw):
        kw = dict(kw)
        if okey is not None:
            kw["origin"] = origin(okey)
        if kid is not None:
            kw["kid"] = kid
        return cls(**kw)

    first = make(kw1)
    id1 = first.id
    how = e.pick(["detach_self", "dropped", "replace-same-content", "dataclasses.replace-after-detach", "duplicate-after-detach", "still-registered"], "predecessor")
    scenario = {"class": cname, "digest_size": size, "origin": okey, "with_child": bool(with_kid), "predecessor": how, "first": repr(kw1), "second": repr(kw2)}
    if how == "still-registered":
        # the other clause: a twin created while the first is registered gets another id, and
        # both are returned under their own ids (whatever the class: falsy, slotted, ...)
        via = e.pick(["constructor", "dataclasses.replace", "duplicate"], "twin_made_by")
        second = make(kw2) if via == "constructor" else (dataclasses.replace(first, **kw2) if via == "dataclasses.replace" else first.duplicate())
        scenario.update(twin_made_by=via, first_id=id1, second_id=second.id)
        if second.id == first.id:
            e.fail("duplicate-ids-among-registered:" + cname, scenario=scenario)
        if NODE_REGISTRY.get(first.id) is not first or NODE_REGISTRY.get(second.id) is not second or cls.get(first.id) is not first:
            e.fail("live-node-not-returned", scenario=scenario)
        third = make(kw2)
        if len({first.id, second.id, third.id}) != 3 or NODE_REGISTRY.get(third.id) is not third or NODE_REGISTRY.get(second.id) is not second:
            scenario.update(third_id=third.id)
            e.fail("duplicate-ids-among-registered:" + cname, scenario=scenario)
        e.distinct((size, cname, okey, bool(with_kid), how, via))
        return scenario
    if how == "detach_self":
        first.detach_self()
        second = make(kw2)
    elif how == "dropped":
        first = None
        second = make(kw2)
    elif how == "replace-same-content":
        second = first.replace(**{k: v for k, v in kw2.items()})
    elif how == "dataclasses.replace-after-detach":
        first.detach_self()
        second = dataclasses.replace(first, **kw2)
    else:
        first.detach_self()
        second = first.duplicate()
        if kid is not None and NODE_REGISTRY.get(kid.id) is not kid:
            e.assume(False)
    scenario.update(first_id=id1, second_id=second.id)
    if second.id != id1:
        e.fail("id-not-deterministic:" + cname, scenario=scenario)
    if NODE_REGISTRY.get(second.id) is not second:
        e.fail("live-node-not-returned", scenario=scenario)
    e.distinct((size, cname, okey, bool(with_kid), how))
    return scenario


_MI3: dict[str, Any] = {}


def mi_harness(e):
    """Classes with two node bases and an empty body (the base class docstring allows multiple
    inheritance for non-slotted classes), whichever class of the family was used first: the id covers
    the direct children of EVERY inherited child field, and detach() reaches all of them."""
    from models import classgen as G
    from pyoak.node import NODE_REGISTRY, ASTNode

    reset_all()
    first = e.pick(["MNamed", "MBodied", "MFunc", "MEmpty"], "class_used_first")
    if _MI3.get("first") != first:
        tag, C = G.make_mi_classes()
        _MI3.clear()
        _MI3.update(first=first, C=C)
    C = _MI3["C"]
    for k in [first] + sorted(C):
        C[k]()
    NODE_REGISTRY.clear()
    F = C[e.pick(["MFunc", "MRich", "MEmpty"], "class")]
    seq = "body" if "body" in F.__dataclass_fields__ else ("extras" if "extras" in F.__dataclass_fields__ else None)
    x = VLeaf(v=1)
    r1, r2 = VLeaf(v=2), VLeaf(v=3)
    kw1 = {"name_kid": x, **({seq: (r1,)} if seq else {"label": 1})}
    kw2 = {"name_kid": x, **({seq: (r2,)} if seq else {"label": 2})}
    alone = F(**kw2)
    id_alone = alone.id
    alone.detach_self()
    del alone
    a = F(**kw1)
    b = F(**kw2)
    scenario = {"class_used_first": first, "class": F.__name__, "differing_field": seq or "label", "id_alone": id_alone, "id_next_to_a_sibling_with_other_children": b.id}
    if b.id != id_alone:
        e.fail("id-not-deterministic:multiple-inheritance", scenario=scenario)
    if a.id == b.id or NODE_REGISTRY.get(a.id) is not a or NODE_REGISTRY.get(b.id) is not b:
        e.fail("duplicate-ids-among-registered:multiple-inheritance", scenario=scenario)
    b.detach_self()
    a.detach()
    for n in (a, x) + ((r1,) if seq else ()):
        if ASTNode.get_any(n.id) is n:
            scenario.update(still_returned=type(n).__name__)
            e.fail("detached-node-still-returned:multiple-inheritance", scenario=scenario)
    if ASTNode.get_any(r2.id) is not r2 or (not seq and ASTNode.get_any(r1.id) is not r1):
        e.fail("live-node-not-returned", scenario=scenario)
    e.distinct((first, F.__name__))
    return scenario


CREATE = ["leaf", "parent", "duplicate", "dc_replace", "roundtrip", "roundtrip_after_detach"]



def _x_runner(tier: str, seed: int, workers: int):
    from xh import c03_x
    from xh.runner import run_obligations

    return run_obligations("xh.c03_x", c03_x.QUICK, 120 if tier == "quick" else 300, workers=workers, signatures=c03_x.SIGNATURES)


def replay_obligation(payload):
    from xh.runner import replay_call

    return replay_call(payload)


def spec(tier: str, seed: int) -> Spec:
    var = "selectors: operation, receiver, argument per step; lazy: strict"
    fams = []
    if tier == "quick":
        plan = [(4, {}, 1), (5, {1: CREATE, 2: CREATE}, 2)]
    else:
        plan = [(5, {}, 2), (6, {1: CREATE, 2: CREATE, 3: CREATE}, 2)]
    for K, restrict, nforce in plan:
        for size in (1, 8):
            firsts = [o for o in OPS if 1 not in restrict or o in restrict[1]]
            for second in firsts:
                thirds = [None] if nforce < 2 else [o for o in OPS if 2 not in restrict or o in restrict[2]]
                for third in thirds:
                    forced = {0: "leaf", 1: second}
                    if third is not None:
                        forced[2] = third
                    name = f"K{K}{'r' if restrict else ''}-size{size}-{second}" + (f"-{third}" if third else "")
                    fams.append(Family(name, make_harness(K, ["leaf"], [size], forced=forced, restrict=restrict), variables=var))
    # payloads that outlive their node: written and detached at step 1, one or two free operations
    # (leaves may be of an unrelated class whose 1-byte id collides), then read back
    free = ["leaf", "parent", "drop", "detach_self", "duplicate", "replace"]
    for size in (1, 8):
        for mid in free:
            fams.append(Family(f"saved-payload-K4-size{size}-{mid}", make_harness(4, ["leaf"], [size], forced={0: "leaf", 1: "save_detach", 2: mid, 3: "load_saved"}, other_class_leaf=True), variables=var))
            fams.append(Family(f"saved-payload-K5-size{size}-{mid}", make_harness(5, ["leaf"], [size], forced={0: "leaf", 1: "save_detach", 2: mid, 4: "load_saved"}, restrict={3: free}, other_class_leaf=True), variables=var))
    # a replace() rejected AFTER the new node was registered (validating subclass, id pre-image unchanged)
    for size in (1, 8):
        for nxt in ["leaf", "parent", "duplicate", "detach_self", "replace", "roundtrip", "drop", "replace_rejected_after_registration"]:
            fams.append(Family(f"late-rejection-K3-size{size}-{nxt}", make_harness(3, ["leaf"], [size], forced={0: "leaf", 1: "replace_rejected_after_registration", 2: nxt}, validated_leaf=True), variables=var))
            fams.append(Family(f"late-rejection-K4-size{size}-{nxt}", make_harness(4, ["leaf"], [size], forced={0: "leaf", 1: nxt, 2: "replace_rejected_after_registration"}, restrict={3: ["leaf", "drop", "roundtrip", "detach_self"]}, validated_leaf=True), variables=var))
    # read-only queries must not keep nodes alive: build, query, drop (and drop again)
    for size in (8,):
        fams.append(Family(f"queries-then-drop-K4-size{size}", make_harness(4, ["leaf"], [size], forced={0: "leaf", 1: "parent", 2: "query", 3: "drop"}), variables=var + "; selector: which read-only library call was made"))
        fams.append(Family(f"queries-then-drop-K5-size{size}", make_harness(5, ["leaf"], [size], forced={0: "leaf", 1: "parent", 2: "query", 3: "drop", 4: "drop"}), variables=var + "; selector: which read-only library call was made"))
    # twins inside one tree: a node leaves the registry (detach_self / replace with the same content), an equal
    # node takes over its id, a parent is built over both, then the parent is detached / replaced / dropped
    for how in ("detach_self", "replace"):
        for last in ("detach", "detach_self", "replace", "drop", "roundtrip_after_detach"):
            fams.append(Family(f"twins-under-one-parent-{how}-{last}", make_harness(5, ["leaf"], [8], forced={0: "leaf", 1: how, 2: "leaf", 3: "parent_pair", 4: last}, max_handles=6), variables=var))
    fams.append(Family("multiple-inheritance", mi_harness, variables="selectors: class of the family used first, class"))
    fams.append(Family("id-determinism-per-field-kind", determinism_harness, variables="selectors: class (non-comparable / non-init / both / slotted / falsy ...), digest size, origin, child, how the predecessor left the registry"))
    Kmax = plan[-1][0]
    return Spec(
        families=fams,
        obligation_runners=[_x_runner],
        functions=FUNCTIONS,
        bounds={"history_length": f"all histories of {plan[0][0]} operations; histories of {Kmax} operations whose steps {sorted(plan[-1][1])} (0-based) are node-creating operations", "max_handles": 4, "digest_sizes": [1, 8], "operations": OPS, "classes": ["VLeaf", "VMany"]},
        rule="a case = one path = a history of K public operations (operation, receiver, argument each a selector) under one digest size and one value of strict; non-trivial and distinct by (digest size, history text)",
        variables="selectors (operation / receiver / argument per step, digest size); lazy boolean strict",
        assumptions=["CPython reference counting frees unreferenced nodes (gc.collect() is run before declaring a node kept alive)", "per-path reset of NODE_REGISTRY", "id determinism is only demanded when neither a twin nor a digest-colliding node is registered"],
        outside=[f"histories longer than {Kmax}", "more than 4 simultaneously held handles", "digest sizes other than 1 and 8", "node classes beyond a leaf and a variadic parent"],
    )


def _plant_detach_direct_only():
    import pyoak.node as N

    def detach(self) -> None:
        N.NODE_REGISTRY.pop(self.id, None)
        for c in self.get_child_nodes():
            N.NODE_REGISTRY.pop(c.id, None)

    N.ASTNode.detach = detach


def _plant_replace_no_restore():
    import pyoak.node as N
    from dataclasses import replace

    def rep(self, **kwargs):
        N.NODE_REGISTRY.pop(self.id, None)
        return replace(self, **kwargs)

    N.ASTNode.replace = rep


PLANTED = {"detach_direct_only": _plant_detach_direct_only, "replace_no_restore": _plant_replace_no_restore}
