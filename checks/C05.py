"""C05 -- traversals visit exactly the descendants, in order, with exact position info.

Engine P with lazy predicates: prune / filter return one fresh symbolic boolean
per position, consulted only when the real traversal (or the reference) asks.
"""
from __future__ import annotations

from typing import Any

from models.shapes import all_shapes, number
from models.zoo import CLASSES, R, build, describe, recipe_size, reset_all
from oracles import traversal as T
from vcheck.core import Family, Spec

ID = "C05"

FUNCTIONS = [
    "pyoak.node:ASTNode.dfs",
    "pyoak.node:ASTNode.bfs",
    "pyoak.node:ASTNode.gather",
    "pyoak.node:ASTNode.children",
    "pyoak.codegen:_gen_get_child_nodes_func",
    "pyoak.codegen:_gen_get_child_nodes_with_field_func",
    "pyoak.codegen:_gen_iter_child_fields_func",
]

GATHER_CLASSES = [("VLeaf",), ("VBase",), ("VMany", "VReq"), ("VSubLeaf", "VStr2"), ("VMixed",)]
# a class together with its subclass, a repeated class: asked of the trees that have both among the descendants
GATHER_CLASSES_SUB = GATHER_CLASSES + [("VLeaf", "VSubLeaf"), ("VSubLeaf", "VLeaf", "VLeaf")]


def _falsy_shapes() -> list[Any]:
    F = R("VFalsy")
    L = R("VLeaf")
    out = [
        R("VReq", child=F),
        R("VMixed", first=F, items=(L,), one=None),
        R("VMixed", first=L, items=(F, L), one=F),
        R("VMany", items=(F, R("VReq", child=F), L)),
        R("VAbAc", ab=F, ac=L),
        R("VInh", first=L, items=(), one=None, extra=F),
        R("VMany", items=(F, F)),
        R("VPair", pair=(L, F)),
        R("VReq", child=R("VMany", items=(R("VReq", child=F),))),
    ]
    return [number(s) for s in out]


def _shared_shapes() -> list[Any]:
    """The same recipe object at two positions is built as one shared node."""
    L = R("VLeaf", {"v": 7})
    S = R("VMany", {}, None, items=(R("VLeaf", {"v": 8}), R("VLeaf", {"v": 9})))
    D = R("VReq", {}, None, child=R("VReq", {}, None, child=R("VLeaf", {"v": 6})))  # shared object with two levels below it
    W = R("VMany", {}, "a", items=(R("VReq", child=R("VLeaf", {"v": 4})), R("VLeaf", {"v": 5})))
    return [
        R("VAbAc", ab=D, ac=D),
        R("VMixed", {"v": 2}, first=W, items=(R("VLeaf", {"v": 1}), W), one=None),
        R("VMany", items=(L, L)),
        R("VMixed", {"v": 1}, first=S, items=(S,), one=None),
        R("VMany", items=(R("VReq", child=S), S, R("VLeaf", {"v": 3}))),
        R("VAbAc", ab=S, ac=S),
    ]


class _FalsyCallable:
    def __init__(self, fn):
        self.fn = fn

    def __bool__(self):
        return False

    def __call__(self, info):
        return self.fn(info)


class _EmptyContainerCallable(frozenset):
    """An (empty) selection of names that is also the predicate deciding membership."""

    fn: Any = None

    def __call__(self, info):
        return self.fn(info)


def _as_object(kind: str, fn):
    if kind == "falsy-bool-callable":
        return _FalsyCallable(fn)
    obj = _EmptyContainerCallable()
    obj.fn = fn
    return obj


def _stream(infos) -> list[tuple]:
    return [(id(i.node), id(i.parent), i.field.name, i.findex) for i in infos]


_MI_CACHE: dict[str, Any] = {}


def _mi_prepare(e, firsts=("MNamed", "MBodied", "MFunc", "MEmpty")):
    """Fresh classes with multiple inheritance / empty bodies; which class of the family is
    used first is a selector (the generated accessors are installed on first use)."""
    from models import classgen as G

    first = e.pick(list(firsts), "class_used_first")
    # classes are re-created whenever the selector changes (depth-first order keeps equal values
    # together); on every path the chosen class is used first and then all others in a fixed
    # order, which is idempotent, so a path never depends on the paths before it
    if _MI_CACHE.get("first") != first:
        tag, C = G.make_mi_classes()
        _MI_CACHE.clear()
        _MI_CACHE.update(first=first, tag=tag, C=C)
    tag, C = _MI_CACHE["tag"], _MI_CACHE["C"]
    for k, c in C.items():
        CLASSES[f"{k}{tag}"] = c
    for k in [first] + sorted(C):
        inst = C[k]()
        list(inst.get_child_nodes()); list(inst.get_child_nodes_with_field()); list(inst.iter_child_fields()); list(inst.get_properties())  # noqa: E702
    L = lambda: R("VLeaf")  # noqa: E731
    F, E_, O = f"MFunc{tag}", f"MEmpty{tag}", f"MOverride{tag}"
    shapes = [
        R(F, {"label": 1}, name_kid=L(), body=(L(), L())),
        R(F, {}, name_kid=None, body=(R(E_, name_kid=L()), R(F, name_kid=L(), body=(L(),)))),
        R("VMany", items=(R(f"MNamed{tag}", name_kid=L()), R(F, name_kid=L(), body=(L(),)), R(O, name_kid=L()))),
        R(E_, {"label": 2}, name_kid=R(f"MBodied{tag}", body=(L(), L()))),
        R(f"MRich{tag}", {"label": 3}, extras=(L(),), note_kid=L(), name_kid=L()),
    ]
    if first == "MNamed":
        # annotation styles (quoted and evaluated interleaved; a plain base annotating later names):
        # independent of the first-use order, so only in one of the families
        shapes += [
            R(f"MQuoted{tag}", {"q": 3}, left=L(), op=L(), right=(), extra=(L(),)),
            R(f"MQuoted{tag}", {}, left=None, op=L(), right=(L(),), extra=()),
            R(f"MAnnBase{tag}", {}, ahead=L(), aitems=(L(),), atail=L()),
        ]
    return [number(x) for x in shapes], {"class_used_first": first}


def make_harness(shapes: list[Any], shared: bool = False, prepare=None, pred_objects: bool = False, predecessor: bool = False, gather_classes=None):
    gather_classes = gather_classes or GATHER_CLASSES
    def harness(e):
        reset_all()
        extra_info: dict[str, Any] = {}

        def fail_(sig, **kw):
            # (a cause that sits in a prehistory is named in the signature: memo attributes set on node classes
            # outlive the path, and the scenarios kept for the replay must include self-contained ones)
            e.fail(sig + (":after-bare-base-class-nodes-walked" if extra_info.get("predecessor") == "bare-base-class-nodes-walked-first" else ""), **kw)

        nonlocal_shapes = shapes
        if prepare is not None:
            nonlocal_shapes, extra_info = prepare(e)
        shape_no = e.choice(len(nonlocal_shapes), "shape")
        recipe = nonlocal_shapes[shape_no]
        if predecessor:
            # ids are unique among registered nodes only: an equal tree was built, walked in every
            # way (also implicitly: detach(), ==, Tree) and has left the registry, but is still
            # referenced when the tree under test -- same ids, other objects -- is built and walked
            how = e.pick(["detached", "root-replaced-with-equal-content", "children-differ-below-equal-root", "bare-base-class-nodes-walked-first"], "predecessor")
            extra_info["predecessor"] = how
            from models.zoo import positions_of, with_origin

            if how.startswith("bare-base"):
                # instances of exactly the childless base classes (VBase, VLeaf next to its subclasses) are met as
                # descendants by every kind of walk before any node of the tree under test exists
                for first in (CLASSES["VReq"](child=CLASSES["VBase"]()), CLASSES["VMany"](items=(CLASSES["VLeaf"](v=77), CLASSES["VBase"]()))):
                    list(first.dfs()), list(first.dfs(bottom_up=True)), list(first.bfs()), list(first.gather(CLASSES["VBase"])), first == first, first.to_tree()
                    first.detach()

            old_recipe = recipe
            if how == "children-differ-below-equal-root":
                for pth in positions_of(recipe):
                    if len(pth) >= 2:
                        old_recipe = with_origin(old_recipe, pth, "b")
            old = build(old_recipe, {} if shared else None)
            list(old.dfs()), list(old.dfs(bottom_up=True)), list(old.bfs()), list(old.gather(CLASSES["VBase"])), old == old, old.to_tree()
            if how == "root-replaced-with-equal-content":
                old2 = old.replace()
                old2.detach()
                extra_info["_keep"] = (old, old2)
            else:
                old.detach()
                extra_info["_keep"] = (old, [i.node for i in old.dfs()])
        root = build(recipe, {} if shared else None)
        keep_alive = extra_info.pop("_keep", None)  # noqa: F841
        positions = T.all_positions(recipe, root)
        index = {}
        for n, pos in enumerate(positions):
            index.setdefault(T.key(pos), n)
        pbits: dict[Any, Any] = {}
        fbits: dict[Any, Any] = {}

        def bit(table, k, name):
            if k not in table:
                table[k] = e.bool(f"{name}@{index.get(k, '?')}")
            return table[k]

        # callbacks given to the real code (receive NodeTraversalInfo)
        def prune_cb(info):
            return bit(pbits, (id(info.node), id(info.parent), info.field.name, info.findex), "prune")

        def filter_cb(info):
            return bit(fbits, (id(info.node), id(info.parent), info.field.name, info.findex), "filter")

        # the predicate objects themselves: plain functions, or callable objects that are falsy
        # in a boolean context (an empty collection / a zero number with __call__) -- the
        # traversal has to call whatever predicate it was given
        if pred_objects:
            kind = e.pick(["falsy-bool-callable", "empty-container-callable"], "predicate_object")
            extra_info["predicate_object"] = kind
            prune_cb, filter_cb = _as_object(kind, prune_cb), _as_object(kind, filter_cb)

        # the same predicates for the reference (receive positions)
        with_prune = e.flag("with_prune")
        with_filter = e.flag("with_filter")
        o_prune = (lambda pos: bit(pbits, T.key(pos), "prune")) if with_prune else (lambda pos: False)
        o_filter = (lambda pos: bit(fbits, T.key(pos), "filter")) if with_filter else (lambda pos: True)
        mode = e.pick(["dfs", "bfs", "gather", "accessors"], "mode")
        scenario = {"tree": describe(recipe), "mode": mode, "with_prune": with_prune, "with_filter": with_filter, "shared": shared, **extra_info}
        falsy = T.has_falsy_single(recipe)

        def explain(got, want, what):
            """Classify a mismatch: the known falsy-single-child defect or anything else."""
            def names(stream):
                return [(index.get(k, "?"), k[2], k[3]) for k in stream]
            scenario.update(
                got=names(got), expected=names(want),
                prune={index.get(k, "?"): True for k, b in pbits.items() if _val(e, b)},
                filtered_out={index.get(k, "?"): True for k, b in fbits.items() if not _val(e, b)},
            )
            return what

        if mode == "dfs":
            bottom_up = e.bool("bottom_up")
            got = _stream(root.dfs(prune=prune_cb if with_prune else None, filter=filter_cb if with_filter else None, bottom_up=bottom_up))
            bu = True if bottom_up else False
            scenario["bottom_up"] = bu
            ref = T.post_order if bu else T.pre_order
            want = [T.key(p) for p in ref(recipe, root, o_filter, o_prune)]
            if got != want:
                if falsy and got == [T.key(p) for p in ref(recipe, root, o_filter, o_prune, True)]:
                    fail_("falsy-single-child-skipped:dfs", scenario=explain(got, want, scenario))
                fail_(f"stream-mismatch:dfs:{'post' if bu else 'pre'}", scenario=explain(got, want, scenario))
            _check_positions(e, root.dfs(bottom_up=bu), scenario)
        elif mode == "bfs":
            got = _stream(root.bfs(prune=prune_cb if with_prune else None, filter=filter_cb if with_filter else None))
            want = [T.key(p) for p in T.level_order(recipe, root, o_filter, o_prune)]
            if got != want:
                if falsy and got == [T.key(p) for p in T.level_order(recipe, root, o_filter, o_prune, True)]:
                    fail_("falsy-single-child-skipped:bfs", scenario=explain(got, want, scenario))
                fail_("stream-mismatch:bfs", scenario=explain(got, want, scenario))
            _check_positions(e, root.bfs(), scenario)
        elif mode == "gather":
            names = e.pick(gather_classes, "classes")
            classes = tuple(CLASSES[n] for n in names)
            exact = e.bool("exact_type")
            arg = classes[0] if len(classes) == 1 else classes
            got_nodes = list(root.gather(arg, exact_type=exact, extra_filter=filter_cb if with_filter else None, prune=prune_cb if with_prune else None))
            ex = True if exact else False
            scenario.update(classes=list(names), exact_type=ex)

            def cls_ok(pos):
                return (type(pos[0]) in classes) if ex else isinstance(pos[0], classes)

            def mk(sfs):
                return [id(p[0]) for p in T.pre_order(recipe, root, lambda pos: cls_ok(pos) and o_filter(pos), o_prune, sfs)]

            # the same classes in the other mode, in the same process (no state may carry over)
            again = list(root.gather(arg, exact_type=not ex))

            def cls_ok2(pos):
                return (type(pos[0]) in classes) if not ex else isinstance(pos[0], classes)

            want2 = [id(p[0]) for p in T.pre_order(recipe, root, cls_ok2, lambda pos: False)]
            if [id(n) for n in again] != want2:
                scenario.update(second_call_exact_type=not ex, got_second=[type(n).__name__ for n in again], expected_second_count=len(want2))
                fail_("gather-depends-on-an-earlier-gather", scenario=scenario)
            got = [id(n) for n in got_nodes]
            want = mk(False)
            if got != want:
                scenario.update(got=[type(n).__name__ for n in got_nodes], expected_count=len(want))
                if falsy and got == mk(True):
                    fail_("falsy-single-child-skipped:gather", scenario=scenario)
                fail_("stream-mismatch:gather", scenario=scenario)
        else:
            # children / get_child_nodes / get_child_nodes_with_field on every node
            for pos in [(root, None, None, None, recipe)] + positions:
                node, rec = pos[0], pos[4]
                want = T.child_positions(rec, node)
                want_def = T.child_positions(rec, node, True)
                # (a class may declare a FIELD called `children`, which then shadows the convenience
                # property of that name: its value is that field's, not the list of all child nodes)
                shadowed = "children" in getattr(type(node), "__dataclass_fields__", {})
                got1 = [id(p[0]) for p in want] if shadowed else [id(c) for c in node.children]
                got2 = [id(c) for c in node.get_child_nodes()]
                got3 = [(id(c), f.name, i) for c, f, i in node.get_child_nodes_with_field()]
                w1 = [id(p[0]) for p in want]
                w3 = [(id(p[0]), p[2], p[3]) for p in want]
                if got1 != w1 or got2 != w1 or got3 != w3:
                    scenario.update(at=type(node).__name__, got=[(x[1], x[2]) for x in got3], expected=[(p[2], p[3]) for p in want])
                    d1 = [id(p[0]) for p in want_def]
                    d3 = [(id(p[0]), p[2], p[3]) for p in want_def]
                    if falsy and got1 == d1 and got2 == d1 and got3 == d3:
                        fail_("falsy-single-child-skipped:accessors", scenario=scenario)
                    fail_("stream-mismatch:accessors", scenario=scenario)
        e.distinct((shape_no, mode, len(pbits), len(fbits), tuple(extra_info.values())))
        return scenario

    return harness


def deep_harness(e):
    """Trees deeper than the interpreter's recursion limit (a long chain of binary operators, deeply
    nested blocks): construction never recurses, and the traversals must not either.  The expected
    streams are written down directly from the way the chain was built."""
    import sys

    reset_all()
    depth = e.pick([sys.getrecursionlimit() + 200, 2 * sys.getrecursionlimit() + 17], "depth")
    kind = e.pick(["single-child-chain", "tuple-chain-with-siblings"], "kind")
    leaf = CLASSES["VLeaf"](v=0)
    cur = leaf
    chain = [leaf]  # bottom-up
    sibs = []
    for k in range(1, depth + 1):
        if kind == "single-child-chain":
            cur = CLASSES["VReq"](child=cur)
        else:
            s = CLASSES["VLeaf"](v=k)
            sibs.append(s)
            cur = CLASSES["VMany"](items=(cur, s))
        chain.append(cur)
    root = cur
    top_down = list(reversed(chain))[1:]  # proper descendants on the spine, top to bottom
    sibs_top_down = list(reversed(sibs))  # sibling of the k-th spine node from the top
    mode = e.pick(["dfs", "dfs-bottom-up", "bfs", "gather-leaves", "dfs-pruned-half-way"], "mode")
    scenario = {"kind": kind, "depth": depth, "mode": mode}
    half = depth // 2
    try:
        if mode == "dfs":
            got = [id(i.node) for i in root.dfs()]
            want = [id(n) for n in top_down] if kind == "single-child-chain" else None
            if want is None:
                # pre-order: spine node, (its subtree), then its sibling -> spine top-down, then siblings bottom-up
                want = [id(n) for n in top_down] + [id(s) for s in reversed(sibs_top_down)]
        elif mode == "dfs-bottom-up":
            got = [id(i.node) for i in root.dfs(bottom_up=True)]
            if kind == "single-child-chain":
                want = [id(n) for n in reversed(top_down)]
            else:
                # post-order: leaf, then going up: sibling of the level, then the parent spine node
                want = []
                up = list(reversed(top_down))  # leaf first
                sib_up = list(reversed(sibs_top_down))  # sibling of the lowest level first
                want.append(id(up[0]))
                for k in range(len(sib_up)):
                    want.append(id(sib_up[k]))
                    if k + 1 < len(up):
                        want.append(id(up[k + 1]))
        elif mode == "bfs":
            got = [id(i.node) for i in root.bfs()]
            if kind == "single-child-chain":
                want = [id(n) for n in top_down]
            else:
                want = []
                for k, n in enumerate(top_down):
                    want.append(id(n))
                    want.append(id(sibs_top_down[k]))
        elif mode == "gather-leaves":
            got = [id(n) for n in root.gather(CLASSES["VLeaf"])]
            want = [id(leaf)] if kind == "single-child-chain" else [id(leaf)] + [id(s) for s in reversed(sibs_top_down)]
        else:
            stop = top_down[half]
            got = [id(i.node) for i in root.dfs(prune=lambda i: i.node is stop)]
            if kind == "single-child-chain":
                want = [id(n) for n in top_down[: half + 1]]
            else:
                want = [id(n) for n in top_down[: half + 1]] + [id(s) for s in reversed(sibs_top_down[: half + 1])]
    except RecursionError as ex:
        scenario.update(raised=f"RecursionError: {ex}"[:120])
        e.fail("deep-tree:traversal-raises-RecursionError", scenario=scenario)
    if got != want:
        scenario.update(got_len=len(got), expected_len=len(want), first_difference=next((k for k, (a, b) in enumerate(zip(got, want)) if a != b), min(len(got), len(want))))
        e.fail("deep-tree:stream-mismatch", scenario=scenario)
    _check_positions(e, root.dfs(), scenario)
    e.distinct((kind, depth, mode))
    return scenario


def _val(e, b) -> bool:
    # value of an already-decided lazy bit on this path (never forks: only called on consulted bits)
    return True if b else False


def _check_positions(e, infos, scenario) -> None:
    for i in infos:
        val = getattr(i.parent, i.field.name)
        ok = (val is i.node) if i.findex is None else (isinstance(val, tuple) and val[i.findex] is i.node)
        if not ok:
            scenario.update(bad_position=(type(i.parent).__name__, i.field.name, i.findex))
            e.fail("position-info-wrong", scenario=scenario)


def spec(tier: str, seed: int) -> Spec:
    if tier == "quick":
        n, d, chunk = 5, 3, 8
    else:
        n, d, chunk = 6, 3, 8
    shapes = all_shapes(n, d)
    fams = []
    for k in range(0, len(shapes), chunk):
        fams.append(Family(f"shapes[{k}:{k+chunk}]", make_harness(shapes[k : k + chunk]), variables="lazy: prune/filter bit per position, bottom_up, exact_type; selector: shape, mode, gather classes"))
    po_shapes = [x for x in shapes if 3 <= recipe_size(x) <= 4][::3][:12]
    fams.append(Family("predicate-objects", make_harness(po_shapes, pred_objects=True), variables="as above; prune / filter are callable objects that are falsy in a boolean context"))
    from models.shapes import exotic_shapes

    fams.append(Family("exotic-classes", make_harness(exotic_shapes(), gather_classes=GATHER_CLASSES_SUB), variables="as above; iterable / falsy / slotted / mixin classes, two tuple fields"))
    pre_shapes = [x for x in shapes if recipe_size(x) >= 2][::5]
    for k in range(0, len(pre_shapes), 12):
        fams.append(Family(f"predecessor-walked[{k}:{k + 12}]", make_harness(pre_shapes[k : k + 12], predecessor=True), variables="as above; selector: how an equal tree with the same ids was walked and left the registry before"))
    fams.append(Family("deep-trees", deep_harness, variables="selectors: chain kind, depth (beyond the interpreter's recursion limit), traversal"))
    fams.append(Family("falsy-single", make_harness(_falsy_shapes()), variables="as above; trees containing a falsy node class"))
    fams.append(Family("shared-object", make_harness(_shared_shapes(), shared=True), variables="as above; one node object stored at two positions"))
    for first in ("MNamed", "MBodied", "MFunc", "MEmpty"):
        fams.append(Family(f"multiple-inheritance-first-{first}", make_harness([], prepare=lambda e, _f=first: _mi_prepare(e, (_f,))), variables="as above; freshly created classes with multiple inheritance and empty bodies; the class used first is fixed per family"))
    return Spec(
        families=fams,
        functions=FUNCTIONS,
        bounds={"nodes_per_tree": n, "depth": d, "tuple_width": 3, "shapes": len(shapes), "predicates": "one symbolic boolean per position for prune and for filter (all subsets)"},
        rule="a case = one path = (tree shape, traversal mode, outcome of every predicate bit the code or the reference consulted); non-trivial = at least one predicate consulted or >=1 descendant; distinct by (shape, mode, consulted-bit counts)",
        variables="lazy booleans (prune/filter per position, bottom_up, exact_type); selectors (shape, mode, classes)",
        assumptions=["predicates are functions of the position (node, parent, field, index)", "per-path reset of NODE_REGISTRY and source registry"],
        outside=[f"trees with more than {n} nodes or deeper than {d}", "stateful predicates", "tuples wider than 3"],
    )


# ---------------------------------------------------------------- planted bugs
def _plant_prune_hides_node():
    import pyoak.node as N

    src_dfs = N.ASTNode.dfs

    def dfs(self, prune=None, filter=None, bottom_up=False):
        # pruned nodes are no longer offered to the filter
        if prune is not None and filter is not None:
            f0 = filter
            filter = lambda i: (not prune(i)) and f0(i)  # noqa: E731
        return src_dfs(self, prune=prune, filter=filter, bottom_up=bottom_up)

    N.ASTNode.dfs = dfs
    for c in CLASSES.values():
        pass


PLANTED = {"dfs_prune_hides_node": _plant_prune_hides_node}
