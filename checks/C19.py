"""C19 -- a rejected legacy operation changes nothing (shares C18's exploration)."""
from __future__ import annotations

from checks import C18
from vcheck.core import Spec

ID = "C19"
FUNCTIONS = C18.FUNCTIONS


def spec(tier: str, seed: int) -> Spec:
    s = C18.spec(tier, seed, which="C19")
    s.rule = "a case = (initial forest, K operations); whenever an operation raises a documented error the snapshot of all pre-existing nodes (attached?, parent, parent field / index, field values, id, original_id, content_id) and the registry are compared before/after; distinct by (forest, history text)"
    return s


def _plant_replace_no_rollback():
    import pyoak.legacy.node as N

    orig = N.AwareASTNode.replace

    def replace(self, **changes):
        cur_parent = self.parent
        try:
            return orig(self, **changes)
        except N.ASTNodeReplaceError:
            if cur_parent is not None:
                self._clear_parent()
            raise

    N.AwareASTNode.replace = replace


PLANTED = {"legacy_replace_error_clears_parent": _plant_replace_no_rollback}
