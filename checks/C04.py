"""C04 -- serialization round-trips trees exactly in dict, JSON, MessagePack and YAML.

Engine P (selectors only for data: values cross C extensions concretely): tree,
value variant, twins outside the tree, format, source optimisation and which of the
original nodes are still alive at read time.
"""
from __future__ import annotations

import gc
from pathlib import Path
from typing import Any

from models.zoo import Color, R, build, describe, kids_of, node_at, positions_of, reset_all, sub_recipe
from vcheck.core import Family, Spec

ID = "C04"
FUNCTIONS = [
    "pyoak.node:ASTNode._deserialize", "pyoak.serialize:DataClassSerializeMixin._deserialize", "pyoak.serialize:DataClassSerializeMixin.as_obj",
    "pyoak.origin:Source._deserialize", "pyoak.origin:Source._serialize", "pyoak.origin:Source.load_serialized_sources", "pyoak.origin:Origin._deserialize",
    "pyoak.origin:Position._deserialize", "pyoak.serialize:DataClassSerializeMixin.to_jsonb", "pyoak.serialize:DataClassSerializeMixin.to_msgpck", "pyoak.serialize:DataClassSerializeMixin.to_yaml",
]
FORMATS = ["dict", "json", "msgpck", "yaml"]
VALUES = [
    {},
    {"s": "héllo ✓ :=()[]@", "i": 2**63 - 1, "f": -1.5e300, "b": True, "n": -(2**63), "e": Color.BLUE, "p": Path("a/b"), "lit": "b", "t": (1, -2), "ot": ("x", ""), "hidden": "h"},
    {"s": "", "i": -1, "f": 0.1, "b": False, "n": None, "t": (0,), "ot": None, "hidden": ""},
    {"s": "multi\nline\t\"quoted\" \\ back", "i": 0, "f": 1e-320, "n": 7, "ot": (), "hidden": "únï"},
]
ORIGINS = [None, "no", "a", "a2", "b", "c", "gen", "xml", "multi"]


def trees(values: list[dict]) -> list[Any]:
    out = []
    for vi, v in enumerate(values):
        for ok in (["a", "multi", None], ["xml", "gen", "c"]):
            shared = R("VSer", {**v, "i": v.get("i", 0)}, ok[0])
            out.append(("plain", R("VSer", v, ok[1], kid=R("VSer", v, ok[0]), kids=(R("VLeaf", {"v": 1}, ok[2]), R("VSer", v, ok[2])))))
            out.append(("shared", R("VSer", {"s": "root"}, ok[1], kid=shared, kids=(shared, R("VMany", {}, ok[2], items=(shared,))))))
    out.append(("plain", R("VMixed", {"v": 1}, "b", first=R("VLeaf", {"v": 1}), items=(R("VLeaf", {"v": 1}), R("VLeaf", {"v": 1}, "a")), one=R("VLeaf", {"v": 1}))))
    out.append(("plain", R("VMany", {}, "multi_files", items=(R("VLeaf", {"v": 1}, "a_file"), R("VLeaf", {"v": 2}, "a_textfile"), R("VReq", {}, "a_textfile", child=R("VLeaf", {"v": 3}, "a_file"))))))
    out.append(("plain", R("VSlot", {"v": 1}, "a", kid=R("VMany", items=(R("VSlot", {"v": 2}, "xml"), R("VLeaf", {"v": 3}))))))
    out.append(("plain", R("VMany", {}, "multi_equal_sources", items=(R("VLeaf", {"v": 1}, "multi_equal_sources"), R("VReq", {}, "a", child=R("VLeaf", {"v": 2}, "multi"))))))
    from models.shapes import exotic_shapes

    out.extend(("plain", x) for x in exotic_shapes())
    # well-typed values that are == to the field's default but distinguishable from it (sign of zero,
    # 0 for an optional whose default is None is not ==, but kept as a neighbour)
    out.append(("plain", R("VMany", {}, "a", items=(R("VTyped", {"f": -0.0}), R("VTyped", {"oi": 0, "t": (), "u": "0"}), R("VRich", {"f": -0.0}, "b")))))
    # values inside an untyped (Any) property: lists and mappings keep their container types in every format
    out.append(("plain", R("VMany", {}, "b", items=(R("VTyped", {"a": [1, [2, 3], "x"]}), R("VTyped", {"a": {"k": [3], "n": {"m": [], "s": "t"}}}, "a")))))
    out.append(("plain", R("VMany", {}, "multi_tuple", items=(R("VLeaf", {"v": 1}, "multi_tuple"), R("VTyped", {"a": {"width": 1, "height": 2, "depth": {"z": 0, "a": 1}}}, "multi")))))  # a multi-origin over a tuple; a mapping whose keys are not in sorted order
    out.append(("twins-reversed", R("VMany", items=(R("VLeaf", {"v": 1}), R("VReq", child=R("VLeaf", {"v": 1})), R("VLeaf", {"v": 1})))))
    return out


def _earlier_version(recipe: Any) -> tuple[Any, int]:
    """The same recipe with every non-comparable init property set to another value of its type
    (an earlier version of the tree: equal, same ids once the earlier one has left the registry).
    Returns (recipe, number of values changed)."""
    import dataclasses

    from models.zoo import CLASSES, _is_recipe

    cls, props, origin_, kids = recipe
    changed = 0
    np = dict(props)
    for f in dataclasses.fields(CLASSES[cls]):
        if f.compare or not f.init or f.name in ("id", "content_id", "origin"):
            continue
        cur = np.get(f.name, f.default if f.default is not dataclasses.MISSING else None)
        if isinstance(cur, str):
            np[f.name] = cur + "-earlier"
            changed += 1
        elif isinstance(cur, int) and not isinstance(cur, bool):
            np[f.name] = cur + 1
            changed += 1
    nk = []
    for fname, val in kids:
        if val is None:
            nk.append((fname, None))
        elif _is_recipe(val):
            r, c = _earlier_version(val)
            changed += c
            nk.append((fname, r))
        else:
            rs = [_earlier_version(c) for c in val]
            changed += sum(c for _, c in rs)
            nk.append((fname, tuple(r for r, _ in rs)))
    return (cls, tuple(sorted(np.items())), origin_, tuple(nk)), changed


def make_harness(cases):
    def harness(e):
        from pyoak.node import NODE_REGISTRY, ASTNode
        from pyoak.origin import NO_ORIGIN, NO_POSITION, NO_SOURCE, SOURCE_OPTIMIZED_SERIALIZATION_KEY, Source

        reset_all()
        cno = e.choice(len(cases), "tree")
        kind, recipe = cases[cno]
        twins = e.pick(["none", "before", "after"], "twins_outside")
        keep: list[Any] = []
        def construct():
            if kind == "twins-reversed":
                # content-identical twins inside one tree, stored in the reverse of their creation
                # order: the first position holds the node with the collision-suffixed id
                from models.zoo import VLeaf, VMany, VReq

                first = VLeaf(v=1)
                second = VLeaf(v=1)
                return VMany(items=(second, VReq(child=first), second))
            return build(recipe, {} if kind == "shared" else None)

        prehistory = "none"
        # violations after a prehistory carry it in their signature, so that the scenarios kept for the replay
        # include ones that bring their own cause along (a library object that outlives a path, such as a shared
        # decoder, makes later paths fail too, and those do not reproduce in the fresh replay process)
        sfx = lambda: "" if prehistory == "none" else ":after-" + prehistory.split("-")[0] + "-" + prehistory.split("-")[1]  # noqa: E731
        if kind in ("plain", "shared"):
            earlier, nchanged = _earlier_version(recipe) if kind == "plain" else (None, 0)
            options = ["none", "another-tree-written-with-every-option-and-dialect-first", "sources-registered-by-name-before-their-text-was-known", "malformed-payloads-read-and-rejected-first"] + (["earlier-version-written-then-detached", "earlier-version-written-then-replaced-by-a-fresh-build"] if nchanged else [])
            prehistory = e.pick(options, "prehistory")
            if prehistory.startswith("malformed-payloads"):
                # reads of broken documents earlier in the process (trailing data, a truncated document, garbage)
                # in every format: each is rejected, and none leaves anything behind for later reads
                from models.zoo import VLeaf, VMany

                good = VMany(items=(VLeaf(v=991), VLeaf(v=992)))
                mp, js, ya = good.to_msgpck(), good.to_json(), good.to_yaml()
                good.detach()
                del good
                for reader, doc in (
                    (VMany.from_msgpck, mp + mp), (VMany.from_msgpck, mp[: len(mp) // 2]), (VMany.from_msgpck, b"\xc1\xff\x00"), (VMany.from_msgpck, mp + b"\x93\x01\x02"),
                    (VMany.from_json, js + js), (VMany.from_json, js[: len(js) // 2]), (VMany.from_yaml, ya[: len(ya) // 2] + "\n  - : :"), (VMany.as_obj, {"__type": "VMany", "items": 5}),
                ):
                    try:
                        r_ = reader(doc)
                        if hasattr(r_, "detach"):
                            r_.detach()
                    except Exception:  # noqa: BLE001
                        pass
                # ... and rejected reads / writes that were given options (what they leave behind is not the next call's business)
                from pyoak.serialize import SerializationOption as _SO

                for reader, doc in ((VMany.from_json, js[: len(js) // 2]), (VMany.from_msgpck, b"\xc1\xff\x00"), (VMany.as_obj, {"__type": "VMany", "items": 5})):
                    try:
                        reader(doc, serialization_options={_SO.SKIP_CLASS: True, _SO.SORT_KEYS: True})
                    except Exception:  # noqa: BLE001
                        pass
                NODE_REGISTRY.clear()
            if prehistory.startswith("sources-registered"):
                # what a loader does: sources become known by type and uri (no text), other sources
                # follow, and only then the same sources are created again with their text
                from pyoak.origin import MemoryTextSource

                MemoryTextSource(source_uri="srcA")
                MemoryTextSource(source_uri="an-unrelated-source")
                MemoryTextSource(source_uri="srcB")
            if prehistory.startswith("another-tree"):
                # calls with options / dialects on ANOTHER tree (nodes without origin, an origin without
                # source) earlier in the process: nothing of them may show in the plain output written later
                from models.zoo import VLeaf, VMany
                from pyoak.node import AST_SERIALIZE_DIALECT_KEY, ASTSerializationDialects
                from pyoak.origin import NO_SOURCE as _NS
                from pyoak.origin import XMLFileOrigin, XMLPath
                from pyoak.serialize import SerializationOption

                other = VMany(items=(VLeaf(v=4242), VLeaf(v=4243, origin=XMLFileOrigin(_NS, XMLPath("/p")))))
                for o_ in (
                    {AST_SERIALIZE_DIALECT_KEY: ASTSerializationDialects.AST_TEST}, {AST_SERIALIZE_DIALECT_KEY: ASTSerializationDialects.AST_EXPLORER},
                    {SerializationOption.SORT_KEYS: True}, {SerializationOption.SKIP_CLASS: True}, {AST_SERIALIZE_DIALECT_KEY: ASTSerializationDialects.AST_TEST, SerializationOption.SORT_KEYS: True},
                ):
                    other.as_dict(serialization_options=o_), other.to_json(serialization_options=o_), other.to_msgpck(serialization_options=o_), other.to_yaml(serialization_options=o_)
                other.detach()
                del other
                prehistory = "another-tree-written-with-every-option-and-dialect-first"
            if prehistory.startswith("earlier-version"):
                # an earlier version of the same tree (other values in non-comparable properties only,
                # so: equal, and the same ids once it has left the registry) was written in every
                # format and is still referenced when the tree under test is built and written
                old = build(earlier)
                old.as_dict(), old.to_json(), old.to_msgpck(), old.to_yaml()
                old.detach()
                if prehistory.endswith("fresh-build"):
                    keep.append(old)
                else:
                    keep.append([n.node for n in old.dfs()] + [old])
        if twins == "before":
            keep.append(construct())
        root = construct()
        if twins == "after":
            keep.append(construct())
        fmt = e.pick(FORMATS, "format")
        optimized = e.flag("source_optimized")
        liveness = e.pick(["all-alive", "none-alive", "one-subtree-alive"], "liveness")
        paths = positions_of(recipe)
        nodes = [node_at(root, p) for p in paths]
        cls_of = type(root)
        # ---- snapshot (no node references besides what `alive` keeps)
        snap = []
        for p, n in zip(paths, nodes):
            rec = sub_recipe(recipe, p)
            child_fields = {k for k, _ in rec[3]}
            props = {f: getattr(n, f) for f in n.__dataclass_fields__ if f not in child_fields and f not in ("id", "content_id", "origin")}
            snap.append({"path": p, "cls": type(n), "id": n.id, "content_id": n.content_id, "props": props, "origin": n.origin, "obj": id(n)})
        share_classes: dict[int, list[int]] = {}
        for k, n in enumerate(nodes):
            share_classes.setdefault(id(n), []).append(k)
        opts = {SOURCE_OPTIMIZED_SERIALIZATION_KEY: True} if optimized else None
        saved_sources = Source.all_as_dict() if optimized else None
        plain_before = root.to_json()  # the plain (option-free) form of the tree, as text
        if fmt == "dict":
            data = root.as_dict(serialization_options=opts)
        elif fmt == "json":
            jv = e.pick(["str", "str-indent", "bytes"], "json_variant")
            data = root.to_jsonb(serialization_options=opts) if jv == "bytes" else root.to_json(indent=jv.endswith("indent"), serialization_options=opts)
        elif fmt == "msgpck":
            data = root.to_msgpck(serialization_options=opts)
        else:
            data = root.to_yaml(serialization_options=opts)
        scenario: dict[str, Any] = {"tree": describe(recipe), "kind": kind, "twins": twins, "prehistory": prehistory, "format": fmt, "source_optimized": optimized, "liveness": liveness}
        # ---- liveness at read time
        alive: dict[int, Any] = {}
        if liveness == "all-alive":
            alive = {k: n for k, n in enumerate(nodes)}
        elif liveness == "one-subtree-alive":
            k0 = e.choice(len(paths), "alive_subtree")
            p0 = paths[k0]
            alive = {k: n for k, (p, n) in enumerate(zip(paths, nodes)) if p[: len(p0)] == p0}
            scenario["alive_subtree"] = str(p0)
        root = None
        nodes = []  # noqa: F841
        n = None  # noqa: F841
        if liveness != "all-alive":
            gc.collect()
        if liveness == "none-alive":
            # a fresh process: nothing registered, no sources known
            keep.clear()
            gc.collect()
            NODE_REGISTRY.clear()
            Source.clear_registry()
            if optimized:
                Source.load_serialized_sources(saved_sources)
        ghost = {nid: obj for nid, obj in NODE_REGISTRY.items()}
        # ---- read back
        try:
            if fmt == "dict":
                back = cls_of.as_obj(data, serialization_options=opts)
            elif fmt == "json":
                back = cls_of.from_json(data, serialization_options=opts)
            elif fmt == "msgpck":
                back = cls_of.from_msgpck(data, serialization_options=opts)
            else:
                back = cls_of.from_yaml(data, serialization_options=opts)
        except Exception as ex:  # noqa: BLE001
            scenario.update(raised=f"{type(ex).__name__}: {ex}"[:300])
            e.fail("deserialization-raises" + sfx(), scenario=scenario)
        new_nodes = [node_at(back, p) for p in paths]
        for k, (s, m) in enumerate(zip(snap, new_nodes)):
            where = str(s["path"])
            if k in alive:
                if m is not alive[k]:
                    scenario.update(at=where)
                    e.fail("registered-original-not-returned" + sfx(), scenario=scenario)
                continue
            taken_over = s["id"] in ghost and id(ghost[s["id"]]) != s["obj"]
            if taken_over:
                # another live node has taken over the id: the statement promises nothing for this position
                e.count("positions_with_taken_over_id")
                continue
            if s["id"] in ghost:
                # the original is still registered (kept alive through `keep` / a shared parent)
                continue
            if type(m) is not s["cls"] or m.id != s["id"] or m.content_id != s["content_id"]:
                scenario.update(at=where, got=(type(m).__name__, m.id, m.content_id), expected=(s["cls"].__name__, s["id"], s["content_id"]))
                e.fail("class-id-or-content_id-differs" + sfx(), scenario=scenario)
            for f, v in s["props"].items():
                g = getattr(m, f)
                if g != v or type(g) is not type(v):
                    scenario.update(at=where, field=f, got=repr(g), expected=repr(v))
                    e.fail("property-value-differs" + sfx(), scenario=scenario)
            if m.origin != s["origin"] or type(m.origin) is not type(s["origin"]):
                scenario.update(at=where, got=repr(m.origin)[:200], expected=repr(s["origin"])[:200])
                e.fail("origin-differs" + sfx(), scenario=scenario)
            if s["origin"] is NO_ORIGIN and (m.origin is not NO_ORIGIN or m.origin.source is not NO_SOURCE or m.origin.position is not NO_POSITION):
                scenario.update(at=where)
                e.fail("No-singletons-not-restored" + sfx(), scenario=scenario)
            if ASTNode.get_any(m.id) is not m:
                scenario.update(at=where)
                e.fail("deserialized-node-not-registered" + sfx(), scenario=scenario)
        # the registry stays well-formed: every key is the id of the node it maps to
        for key, obj in list(NODE_REGISTRY.items()):
            if obj.id != key:
                scenario.update(registry_key=key, node_id=obj.id)
                e.fail("registry-key-differs-from-node-id" + sfx(), scenario=scenario)
        for ks in share_classes.values():
            if len({id(new_nodes[k]) for k in ks}) != 1:
                scenario.update(shared_positions=[str(snap[k]["path"]) for k in ks])
                e.fail("shared-node-no-longer-shared" + sfx(), scenario=scenario)
        if liveness == "all-alive" and not (back == alive[0]):
            e.fail("result-not-equal-to-original" + sfx(), scenario=scenario)
        # the tree read back is written again, without options: the same plain text as before
        # (whatever options the two calls above carried)
        plain_after = back.to_json()
        if plain_after != plain_before:
            scenario.update(plain_before=plain_before[:200], plain_after=plain_after[:200])
            e.fail("plain-serialization-of-the-result-differs-from-that-of-the-original" + sfx(), scenario=scenario)
        e.distinct((cno, twins, prehistory, fmt, optimized, liveness, scenario.get("alive_subtree")))
        return scenario

    return harness


def _shape_cases(n: int) -> list[Any]:
    """Every zoo shape up to n nodes, origins assigned round-robin from the pool by position."""
    from models.shapes import all_shapes
    from models.zoo import with_origin

    out = []
    for k, s in enumerate(all_shapes(n, 3)):
        r = s
        for j, p in enumerate(positions_of(s)):
            r = with_origin(r, p, ORIGINS[(k + j) % len(ORIGINS)])
        out.append(("plain", r))
    return out



def _x_runner(tier: str, seed: int, workers: int):
    from xh import c04_x
    from xh.runner import run_obligations

    return run_obligations("xh.c04_x", c04_x.QUICK, 120 if tier == "quick" else 300, workers=workers, signatures=c04_x.SIGNATURES)


def replay_obligation(payload):
    from xh.runner import replay_call

    return replay_call(payload)


def spec(tier: str, seed: int) -> Spec:
    values = VALUES[:2] if tier == "quick" else VALUES
    cases = trees(values) + _shape_cases(3 if tier == "quick" else 5)
    chunk = 1 if tier == "quick" else 6
    fams = [Family(f"tree[{k}:{k + chunk}]", make_harness(cases[k : k + chunk]), variables="selectors: tree, value variant, twins outside the tree, format, source optimisation, liveness at read time") for k in range(0, len(cases), chunk)]
    return Spec(
        families=fams,
        obligation_runners=[_x_runner],
        functions=FUNCTIONS,
        bounds={"trees": len(cases), "value_variants": len(values), "formats": FORMATS, "liveness": ["all alive", "none alive (registries cleared)", "each single subtree alive"], "twins": ["none", "created before", "created after"]},
        rule="a case = (tree, twins, format, optimized sources, liveness, alive subtree); all non-trivial (every position compared with the snapshot); distinct by that tuple",
        variables="selectors only: no engine keeps data symbolic through orjson / msgpack / yaml / mashumaro-generated code (pool values)",
        assumptions=["clearing the node and source registries stands in for a fresh process", "a position whose id was taken over by another live node is skipped (the statement's proviso)"],
        outside=["arbitrary Unicode / int / float values (pool only)", "custom mashumaro dialects", "trees beyond the value-carrying trees and all zoo shapes up to 3 (quick) / 5 (thorough) nodes"],
    )


def _plant_deser_no_force_id():
    import pyoak.node as N

    def _deserialize(cls, value):
        existing = N.NODE_REGISTRY.get(value["id"])
        if existing is not None:
            return existing
        return super(N.ASTNode, cls)._deserialize(value)

    N.ASTNode._deserialize = classmethod(_deserialize)


PLANTED = {"deser_no_force_id": _plant_deser_no_force_id}
