"""C06 -- Tree answers upward queries consistently with the downward structure.

Engine P: trees without repeated node objects (content-identical twins at different
positions included) are selectors; `exact_type` and `check_ancestor` are lazy
symbolic booleans; every node / ordered pair / foreign twin is a query argument.
"""
from __future__ import annotations

from typing import Any

from models.shapes import all_shapes
from models.zoo import CLASSES, R, build, describe, kids_of, node_at, positions_of, reset_all, sub_recipe
from vcheck.core import Family, Spec

ID = "C06"
FUNCTIONS = [
    "pyoak.tree:Tree.__init__", "pyoak.tree:Tree.get_xpath", "pyoak.tree:Tree.get_parent", "pyoak.tree:Tree.get_parent_info", "pyoak.tree:Tree.is_root",
    "pyoak.tree:Tree.is_in_tree", "pyoak.tree:Tree.get_depth", "pyoak.tree:Tree.get_ancestors", "pyoak.tree:Tree.get_first_ancestor_of_type", "pyoak.tree:Tree.is_ancestor",
]
ANC_CLASSES = [("VBase",), ("VMany",), ("VReq", "VMixed"), ("VMixed",), ("VLeaf",), ("VMixed", "VReq", "VMany"), ("VMany", "VMixed", "VReq"), ("VMixed", "VInh")]  # a class listed next to its subclass (last); before it: the same classes in two orders (the nearest matching ancestor wins, not the first class)


def _twinify(recipe: Any) -> Any:
    """Make all leaves content-identical (same v): twins at different positions."""
    cls, props, origin, kids = recipe
    nk = []
    for f, val in kids:
        if val is None:
            nk.append((f, None))
        elif isinstance(val, tuple) and len(val) == 4 and isinstance(val[0], str):
            nk.append((f, _twinify(val)))
        else:
            nk.append((f, tuple(_twinify(c) for c in val)))
    p = dict(props)
    if "v" in p:
        p["v"] = 1
    return (cls, tuple(sorted(p.items())), origin, tuple(nk))


def _follow_xpath(root: Any, xpath: str) -> Any:
    """Structural navigation of '/@root[0]Cls/@field[i]Cls...' (DESIGN appendix A.7)."""
    import re

    steps = xpath.split("/")[1:]
    m = re.fullmatch(r"@root\[0\](\w+)", steps[0])
    if not m or type(root).__name__ != m.group(1):
        return None
    node = root
    for st in steps[1:]:
        m = re.fullmatch(r"@(\w+)\[(\d+)\](\w+)", st)
        if not m:
            return None
        val = getattr(node, m.group(1), None)
        if isinstance(val, tuple):
            i = int(m.group(2))
            if i >= len(val):
                return None
            node = val[i]
        else:
            if m.group(2) != "0" or val is None:
                return None
            node = val
        if type(node).__name__ != m.group(3):
            return None
    return node


def _binary_queries(e, tree, paths, nodes, fail):
    check = e.bool("check_ancestor")
    for p, n in zip(paths, nodes):
        for q, m in zip(paths, nodes):
            is_anc = len(q) < len(p) and p[: len(q)] == q
            if tree.is_ancestor(n, m) is not is_anc:
                fail("is_ancestor-wrong", node=str(p), ancestor=str(q))
            try:
                d = tree.get_depth(n, relative_to=m, check_ancestor=check)
                raised = None
            except ValueError:
                d, raised = None, "ValueError"
            chk = True if check else False
            if is_anc:
                if raised or d != len(p) - len(q):
                    fail("relative-depth-wrong", node=str(p), relative_to=str(q), got=d, raised=raised, check_ancestor=chk)
            elif chk and raised != "ValueError":
                fail("relative-depth-to-non-ancestor-does-not-raise-ValueError", node=str(p), relative_to=str(q), got=d)


def make_harness(bases_, prepare=None):
    def harness(e):
        bases = bases_
        from pyoak.tree import Tree

        reset_all()
        if prepare is not None:
            bases, _extra = prepare(e)  # noqa: F841 -- freshly created classes (multiple inheritance, mixins)
        bno = e.choice(len(bases), "base")
        twins = e.flag("content_identical_twins")
        recipe = _twinify(bases[bno]) if twins else bases[bno]
        if e.flag("last_leaf_falsy"):
            from models.shapes import falsify

            recipe = falsify(recipe)
        # prehistory: caches keyed by node hash / equality must not leak between trees.  An
        # identical tree is built, indexed and queried, then detached (its ids are taken over by
        # the tree under test) or replaced by an equal root.
        pre = e.pick(["none", "identical-tree-indexed-then-detached", "root-replaced-by-equal-root", "second-tree-built-afterwards-over-the-same-children"], "prehistory")
        if pre in ("none", "second-tree-built-afterwards-over-the-same-children"):
            root = build(recipe)
        else:
            from pyoak.match.xpath import ASTXpath

            root0 = build(recipe)
            t0 = Tree(root0)
            t0.get_depth(root0)
            root0.to_tree()
            ASTXpath("//VLeaf").match(root0, root0)
            if pre == "identical-tree-indexed-then-detached":
                root0.detach()
                del t0
                root = build(recipe)
            else:
                root = root0.replace()
        tree = Tree(root)
        other_tree = None
        if pre == "second-tree-built-afterwards-over-the-same-children":
            # Trees are independent objects: a second Tree, built later over another root that holds
            # the same child objects (in reverse order, under a parent of another class), stays alive
            kids = list(root.get_child_nodes())
            if not kids:
                e.assume(False)
            other_root = CLASSES["VMany"](items=tuple(reversed(kids)))
            other_tree = Tree(other_root)
            other_tree.get_depth(kids[0])
            for q in (tree.get_parent, tree.get_parent_info, tree.get_depth, tree.get_xpath):
                try:
                    q(other_root)
                    raised = False
                except KeyError:
                    raised = True
                if not raised:
                    e.fail("query-about-foreign-node-does-not-raise-KeyError", scenario={"tree": describe(recipe), "prehistory": pre, "query": q.__name__, "foreign": "the root of the second tree"})
            if tree.is_in_tree(other_root):
                e.fail("foreign-node-in-tree", scenario={"tree": describe(recipe), "prehistory": pre})
        paths = positions_of(recipe)
        nodes = [node_at(root, p) for p in paths]
        parent_of = {tuple(p): tuple(p[:-1]) for p in paths if p}
        scenario: dict[str, Any] = {"tree": describe(recipe), "twins": twins, "prehistory": pre}
        mode = e.pick(["unary", "binary", "binary-then-unary", "foreign"], "query_kind")
        scenario["query_kind"] = mode

        def fail(sig, **kw):
            scenario.update(kw)
            e.fail(sig, scenario=scenario)

        if root is not tree.root:
            fail("root-property")
        if mode in ("binary", "binary-then-unary"):
            _binary_queries(e, tree, paths, nodes, fail)
        if mode in ("unary", "binary-then-unary"):
            exact = e.bool("exact_type")
            anc = e.pick(ANC_CLASSES, "ancestor_classes")
            classes = tuple(CLASSES[c] for c in anc)
            xpaths = set()
            for p, n in zip(paths, nodes):
                where = str(p)
                if not tree.is_in_tree(n):
                    fail("member-not-in-tree", at=where)
                if tree.is_root(n) != (not p):
                    fail("is_root-wrong", at=where)
                exp_parent = node_at(root, p[:-1]) if p else None
                if tree.get_parent(n) is not exp_parent:
                    fail("get_parent-wrong", at=where)
                par, fld, idx = tree.get_parent_info(n)
                if p:
                    if par is not exp_parent or fld is None or fld.name != p[-1][0] or idx != p[-1][1]:
                        fail("get_parent_info-wrong", at=where, got=(None if fld is None else fld.name, idx))
                    if fld is not type(par).__dataclass_fields__[fld.name]:
                        fail("get_parent_info-field-is-not-the-parent-class's-field", at=where)
                    val = getattr(par, fld.name)
                    if (val[idx] if idx is not None else val) is not n:
                        fail("parent-does-not-store-node-there", at=where)
                elif (par, fld, idx) != (None, None, None):
                    fail("get_parent_info-root-not-None", at=where)
                chain = [node_at(root, p[:k]) for k in range(len(p) - 1, -1, -1)]
                got_chain = list(tree.get_ancestors(n))
                if len(got_chain) != len(chain) or any(a is not b for a, b in zip(got_chain, chain)):
                    fail("get_ancestors-wrong", at=where)
                if tree.get_depth(n) != len(p):
                    fail("get_depth-wrong", at=where, got=tree.get_depth(n))
                got_first = tree.get_first_ancestor_of_type(n, classes[0] if len(classes) == 1 else classes, exact_type=exact)
                ex = True if exact else False
                want_first = next((a for a in chain if ((type(a) in classes) if ex else isinstance(a, classes))), None)
                if got_first is not want_first:
                    fail("get_first_ancestor_of_type-wrong", at=where, exact_type=ex, classes=list(anc))
                xp = tree.get_xpath(n)
                if _follow_xpath(root, xp) is not n:
                    fail("xpath-does-not-lead-to-node", at=where, xpath=xp)
                if xp in xpaths:
                    fail("two-nodes-share-an-xpath", xpath=xp)
                xpaths.add(xp)
        elif mode == "binary":
            pass
        else:
            # foreign nodes content-identical to members, created while the members are registered
            k = e.choice(len(paths), "member")
            twin = build(sub_recipe(recipe, paths[k]))
            if twin is nodes[k]:
                fail("build-returned-member")
            if tree.is_in_tree(twin):
                fail("foreign-twin-reported-in-tree", member=str(paths[k]))
            for name, call in [
                ("get_xpath", lambda: tree.get_xpath(twin)), ("get_parent", lambda: tree.get_parent(twin)), ("get_parent_info", lambda: tree.get_parent_info(twin)),
                ("get_depth", lambda: tree.get_depth(twin)), ("get_ancestors", lambda: list(tree.get_ancestors(twin))),
                ("get_first_ancestor_of_type", lambda: tree.get_first_ancestor_of_type(twin, CLASSES["VBase"])), ("is_ancestor", lambda: tree.is_ancestor(twin, root)),
            ]:
                try:
                    call()
                    outcome = "returned"
                except KeyError:
                    outcome = "KeyError"
                except Exception as ex:  # noqa: BLE001
                    outcome = type(ex).__name__
                if outcome != "KeyError":
                    fail("query-about-foreign-node-does-not-raise-KeyError", method=name, outcome=outcome, member=str(paths[k]))
        e.distinct((bno, twins, mode, pre))
        return scenario

    return harness


_SAME_LAYOUT_SRC = """
from dataclasses import dataclass, field
from models.zoo import VBase

@dataclass(frozen=True)
class VDialect(VBase):
    kid: VBase | None = field(default=None, metadata={"dialect": "%s"})
    kids: tuple[VBase, ...] = field(default=(), metadata={"dialect": "%s"})
    v: int = 0
"""


def same_layout_harness(e):
    """Two class objects with one qualified name and one field layout (a class produced twice by
    a factory / defined again): every Field the Tree hands out is a field of the class of the
    node it describes."""
    import dataclasses
    import sys
    import types

    from models.zoo import VLeaf
    from pyoak.tree import Tree

    reset_all()
    mod = sys.modules.get("vgen_dialects") or types.ModuleType("vgen_dialects")
    sys.modules["vgen_dialects"] = mod
    classes = []
    for tag in ("A", "B"):
        exec(compile(_SAME_LAYOUT_SRC % (tag, tag), "vgen_dialects", "exec", dont_inherit=True), mod.__dict__)
        classes.append(mod.__dict__["VDialect"])
    first = e.pick(["A-used-first", "B-used-first", "only-the-queried-class"], "class_used_first")
    queried = e.choice(2, "queried_class")
    order = {"A-used-first": [0], "B-used-first": [1], "only-the-queried-class": []}[first]
    for k in order:
        warm = classes[k](kid=VLeaf(v=1), kids=(VLeaf(v=2),))
        Tree(warm)
        list(warm.dfs())
    cls = classes[queried]
    root = cls(kid=cls(kid=VLeaf(v=3)), kids=(VLeaf(v=4), cls(v=5)))
    tree = Tree(root)
    scenario = {"class_used_first": first, "queried_class": "AB"[queried]}
    own = {f.name: f for f in dataclasses.fields(cls)}
    for info in list(root.dfs()) + list(root.bfs()):
        par, fld, idx = tree.get_parent_info(info.node)
        for what, f in (("Tree.get_parent_info", fld), ("dfs / bfs position info", info.field)):
            if type(par) is cls and f is not own[f.name]:
                scenario.update(accessor=what, field=f.name, metadata=dict(f.metadata))
                e.fail("field-object-belongs-to-another-class", scenario=scenario)
    for c, f, _i in root.get_child_nodes_with_field():
        if f is not own[f.name]:
            scenario.update(accessor="get_child_nodes_with_field", field=f.name, metadata=dict(f.metadata))
            e.fail("field-object-belongs-to-another-class", scenario=scenario)
    e.distinct((first, queried))
    return scenario


def spec(tier: str, seed: int) -> Spec:
    if tier == "quick":
        bases = all_shapes(5, 3) + all_shapes(6, 3)[422::3]
    else:
        bases = all_shapes(7, 3)
    extra = [R("VMany", items=tuple(R("VLeaf", {"v": i}) for i in range(12)) + (R("VReq", child=R("VLeaf", {"v": 99})),))]
    bases = bases + extra
    chunk = 24
    fams = [Family(f"trees[{k}:{k + chunk}]", make_harness(bases[k : k + chunk]), variables="selectors: tree, twins, query kind, member; lazy: exact_type, check_ancestor") for k in range(0, len(bases), chunk)]
    return Spec(
        families=fams + [Family(f"multiple-inheritance-first-{f_}", make_harness([], prepare=lambda e, _f=f_: __import__("checks.C05", fromlist=["_mi_prepare"])._mi_prepare(e, (_f,))), variables="as the tree families; freshly created classes with multiple inheritance / plain dataclass mixins / empty bodies") for f_ in ("MNamed", "MFunc")] + [Family("exotic-classes", make_harness(__import__("models.shapes", fromlist=["exotic_shapes"]).exotic_shapes()), variables="as the tree families; iterable / falsy / slotted / mixin classes, two tuple fields")] + [Family("same-named-classes-with-one-layout", same_layout_harness, variables="selectors: which of two same-named classes was used first, which is queried")],
        functions=FUNCTIONS,
        bounds={"trees": len(bases), "nodes_per_tree": "all shapes up to 5 nodes and every third shape with 6" if tier == "quick" else "all shapes up to 7 nodes", "depth": 3, "ancestor_class_sets": len(ANC_CLASSES)},
        rule="a case = (tree, twins or distinct leaves, query kind) with every node / ordered pair / member twin as argument; all non-trivial; distinct by that tuple",
        variables="selectors (tree, twins, query kind, member, class set); lazy booleans exact_type, check_ancestor",
        assumptions=["all nodes registered when the Tree is built, no node object occurs twice (precondition of the statement)", "KeyError demanded for foreign nodes from every query method except is_in_tree / is_root; ValueError only with check_ancestor=True"],
        outside=["trees beyond the bound", "trees whose members were detached and re-created with the same id"],
    )


def _plant_xpath_no_index():
    import pyoak.tree as T

    orig = T.Tree.__init__

    def init(self, root):
        orig(self, root)
        for n in root.dfs():
            self._node_to_xpath[n.node] = f"{self._node_to_xpath[n.parent]}/@{n.field.name}[0]{n.node.__class__.__name__}"

    T.Tree.__init__ = init


def _plant_is_ancestor_eq():
    import pyoak.tree as T

    def is_ancestor(self, node, ancestor):
        for a in self.get_ancestors(node):
            if a == ancestor:
                return True
        return False

    T.Tree.is_ancestor = is_ancestor


PLANTED = {"xpath_no_index": _plant_xpath_no_index, "is_ancestor_by_equality": _plant_is_ancestor_eq}
