"""C01 -- content_id / is_equal is exactly structural content equality.

Engine Z (data-symbolic core): the digest pre-image is generated from the current
source of ASTNode.__post_init__ by partial evaluation (src2smt) for each model
class; injectivity / separation / type-tag obligations are discharged by cvc5
(z3 cross-check); `sat` models are replayed on the real constructor.
Engine P: pairs of trees related by single edits (selectors), oracle = structural
equality of the recipes.
"""
from __future__ import annotations

import itertools
from typing import Any

import models.zoo as _Z
from models.shapes import all_shapes
from models.zoo import CLASSES, R, build, describe, reset_all
from vcheck.core import Family, HarnessFailure, Obligation, Spec

ID = "C01"
FUNCTIONS = ["pyoak.node:ASTNode.__post_init__", "pyoak.node:ASTNode.is_equal", "pyoak.codegen:_gen_get_properties_func", "pyoak.codegen:_gen_get_child_nodes_with_field_func"]

# model classes for engine Z: name -> (symbolic property kinds options, child layouts)
# a layout is a dict field -> None (absent) | "one" (single child present) | int (tuple length)
Z_MODELS: dict[str, dict[str, Any]] = {
    "VLeaf": {"kinds": [{"v": "int"}], "layouts": [{}]},
    "VStr2": {"kinds": [{"a": "str", "b": "str"}], "layouts": [{}]},
    "VStrInt": {"kinds": [{"s": "str", "i": "int"}], "layouts": [{}]},
    "VStrThenInt": {"kinds": [{"a": "str", "z": "int"}], "layouts": [{}]},
    "VStrKid": {"kinds": [{"s": "str"}], "layouts": [{"kid": None}, {"kid": "one"}]},
    "VZ": {"kinds": [{"a": "str"}], "layouts": [{}]},
    "VZL": {"kinds": [{"a": "str"}], "layouts": [{}]},
    "VTwinA": {"kinds": [{"v": "int"}], "layouts": [{"kid": None}, {"kid": "one"}]},
    "VTwinB": {"kinds": [{"v": "int"}], "layouts": [{"kid": None}, {"kid": "one"}]},
    "VRich": {"kinds": [{"i": "int", "s": "str", "b": "bool", "n": "none"}, {"i": "int", "s": "str", "b": "bool", "n": "int"}], "layouts": [{}]},
    "VMany": {"kinds": [{}], "layouts": [{"items": 0}, {"items": 1}, {"items": 2}, {"items": 3}]},
    "VMixed": {"kinds": [{"v": "int"}], "layouts": [{"first": "one", "items": n, "one": o} for n in (0, 1, 2) for o in (None, "one")]},
    "VAbAc": {"kinds": [{}], "layouts": [{"ab": a, "ac": c} for a in (None, "one") for c in (None, "one")]},
    "VPair": {"kinds": [{}], "layouts": [{"pair": 2}]},
    "VFlags": {"kinds": [{"h": "int", "k": "int"}], "layouts": [{}]},
    # comparable properties that are no constructor arguments (init=False) are content all the same
    "VSerial": {"kinds": [{"name": "str", "serial": "int", "size": "int"}], "layouts": [{}]},
}
TYPE_CASES = [("VLeaf", "v", ["int", "bool", "str", "none"]), ("VRich", "n", ["none", "int", "str"])]


def _skeleton(cls_name: str, layout: dict[str, Any]):
    from models.zoo import VLeaf

    counter = itertools.count(900)
    kw: dict[str, Any] = {}
    for f, how in layout.items():
        if how is None:
            kw[f] = None
        elif how == "one":
            kw[f] = VLeaf(v=next(counter))
        else:
            kw[f] = tuple(VLeaf(v=next(counter)) for _ in range(how))
    return CLASSES[cls_name](**kw)


def _pre(cls_name: str, kinds: dict[str, str], layout: dict[str, Any], tag: str):
    from src2smt.pe import preimages

    return preimages(CLASSES[cls_name], _skeleton(cls_name, layout), kinds, tag)


def _lay(layout: dict[str, Any]) -> str:
    return ",".join(f"{k}={v}" for k, v in layout.items()) or "-"


def z_obligation_specs(tier: str) -> list[dict[str, Any]]:
    """Every obligation as a plain dict (name, left/right model, mode)."""
    W = 2 if tier == "quick" else 3
    out: list[dict[str, Any]] = []
    for name, m in Z_MODELS.items():
        layouts = [l for l in m["layouts"] if all(not isinstance(v, int) or v <= W for v in l.values())]
        for kinds in m["kinds"]:
            if kinds:
                out.append({"name": f"INJ_PROPS:{name}:{'/'.join(f'{k}:{v}' for k, v in kinds.items())}", "mode": "props", "L": (name, kinds, layouts[-1]), "R": (name, kinds, layouts[-1])})
                if "str" in kinds.values():
                    # complement of the known separator collision: string values without ')'
                    out.append({"name": f"INJ_PROPS_NOPAREN:{name}:{'/'.join(f'{k}:{v}' for k, v in kinds.items())}", "mode": "props", "noparen": True, "L": (name, kinds, layouts[-1]), "R": (name, kinds, layouts[-1])})
        if any(m["layouts"][0].keys()):
            for la, lb in itertools.combinations_with_replacement(layouts, 2):
                out.append({"name": f"INJ_KIDS:{name}:{_lay(la)}|{_lay(lb)}", "mode": "kids", "L": (name, m["kinds"][0], la), "R": (name, m["kinds"][0], lb)})
        if tier == "thorough" and m["kinds"][0] and any(m["layouts"][0].keys()):
            out.append({"name": f"INJ_FULL:{name}", "mode": "full", "L": (name, m["kinds"][0], layouts[-1]), "R": (name, m["kinds"][0], layouts[-1])})
    names = list(Z_MODELS)
    sep_pairs = [("VZ", "VZL"), ("VTwinA", "VTwinB"), ("VLeaf", "VTwinA"), ("VStr2", "VStrInt"), ("VMany", "VPair"), ("VZ", "VStr2"), ("VStrKid", "VStr2")]
    if tier == "thorough":
        sep_pairs = list(itertools.combinations(names, 2))
    for a, b in sep_pairs:
        out.append({"name": f"SEP:{a}|{b}", "mode": "sep", "L": (a, Z_MODELS[a]["kinds"][0], Z_MODELS[a]["layouts"][-1]), "R": (b, Z_MODELS[b]["kinds"][0], Z_MODELS[b]["layouts"][-1])})
    for cls_name, fld, kinds in TYPE_CASES:
        base = dict(Z_MODELS[cls_name]["kinds"][0])
        for ka, kb in itertools.combinations(kinds, 2):
            out.append({"name": f"TYPE:{cls_name}.{fld}:{ka}|{kb}", "mode": "type", "L": (cls_name, {**base, fld: ka}, {}), "R": (cls_name, {**base, fld: kb}, {})})
    return out


def _solve_obligation(ob: dict[str, Any], str_bound: int, timeout: float) -> Obligation:
    from src2smt import emit, solvers
    from src2smt.pe import Unencodable

    reset_all()
    try:
        L = _pre(*ob["L"], "L")
        Rr = _pre(*ob["R"], "R")
    except Unencodable as ex:
        return Obligation(ob["name"], "Z", "error", detail={"unencodable": str(ex)})
    mode = ob["mode"]
    eq: list[tuple[Any, Any]] = []
    diff: list[str] = []
    if mode == "props":
        for k in L.children:
            eq.append((L.children[k].content_id, Rr.children[k].content_id))
        diff = [emit.differs(L.props[k], Rr.props[k]) for k in L.props]
    elif mode == "kids":
        for k in L.props:
            eq.append((L.props[k], Rr.props[k]))
        if set(L.children) != set(Rr.children):
            diff = ["true"]
        else:
            diff = [emit.differs(L.children[k].content_id, Rr.children[k].content_id) for k in L.children]
    elif mode == "full":
        diff = [emit.differs(L.props[k], Rr.props[k]) for k in L.props] + [emit.differs(L.children[k].content_id, Rr.children[k].content_id) for k in L.children]
    elif mode in ("sep", "type"):
        diff = ["true"]
    extra = []
    if ob.get("noparen"):
        for v in list(L.props.values()) + list(Rr.props.values()):
            if v.kind == "str":
                extra.append(f'(assert (not (str.contains {v.name} ")")))')
    also = [v for v in list(L.props.values()) + list(Rr.props.values()) if v.kind != "none"] + [c.content_id for c in list(L.children.values()) + list(Rr.children.values())]
    q = emit.query(L, Rr, "content", content_differs=diff, extra_equal=eq, str_bound=str_bound, extra_asserts=extra, also_declare=also)
    res = solvers.solve(ob["name"], q, timeout, cross_timeout=4)
    o = Obligation(ob["name"], "Z", "inconclusive", seconds=res["seconds"], solver=f"cvc5={res['cvc5']}({res['cvc5_s']}s) z3={res['z3']}({res['z3_s']}s)", queries=2)
    o.detail = {"preimage_left": emit.term(L.content)[:300], "note": res["note"]}
    if res["verdict"] == "unsat":
        # vacuity guard: the pre-image equation alone must be satisfiable
        qs = emit.query(L, Rr, "content", content_differs=[], extra_equal=eq, str_bound=str_bound, sanity=True, extra_asserts=extra)
        rs = solvers.solve(ob["name"] + "-sanity", qs, 20, cross_timeout=2)
        o.queries += 2
        o.seconds += rs["seconds"]
        if mode in ("sep", "type") or (mode == "kids" and set(L.children) != set(Rr.children)):
            o.status = "discharged"  # the equation itself is the obligation; nothing to sanity-check
        elif rs["verdict"] == "sat":
            o.status = "discharged"
        else:
            o.status = "inconclusive"
            o.detail["reason"] = f"sanity query (equation without disequality) returned {rs['verdict']}"
    elif res["verdict"] == "sat":
        model = emit.parse_model(res["model_text"])
        has_str = any(v.kind == "str" for v in list(L.props.values()) + list(Rr.props.values()))
        o.status = "violated"
        o.signature = "property-string-separator-collision" if (mode in ("props", "full") and has_str and not ob.get("noparen")) else f"preimage-collision:{mode}:{ob['name'].split(':')[1]}"
        o.detail.update(model=model)
        o.replay = {"ob": {"name": ob["name"], "mode": mode, "L": list(ob["L"]), "R": list(ob["R"])}, "model": model}
    else:
        o.status = "inconclusive" if res["verdict"] != "disagree" else "error"
        o.detail.update(verdict=res["verdict"], raw=res["raw"])
    return o


def _regdep_obligations(str_bound: int, timeout: float) -> list[Obligation]:
    """REGDEP: content_id does not depend on what the registry holds.  The registry is an
    environment: every lookup under the (symbolic) id being computed may miss or hit an arbitrary
    registered node.  When the code consults it before content_id is assigned and then copies the
    hit node's content_id, the solver is asked whether two nodes of the class with equal id
    pre-images can have different content pre-images (free-form origin fqn included); a model is
    replayed against the real constructor with the first node kept registered."""
    from pyoak.origin import URI_DELIM
    from src2smt import emit, solvers
    from src2smt.pe import Unencodable, free_vars, preimage_variants

    out = []
    for name, m in Z_MODELS.items():
        kinds = m["kinds"][0]
        layout = {k: (None if v in (None, "one") else 0) for k, v in m["layouts"][-1].items()}
        reset_all()
        o = Obligation(f"REGDEP:{name}", "Z", "inconclusive", solver="syntactic (environment decisions met before content_id is assigned)", queries=0)
        try:
            skel = _skeleton(name, layout)
        except Exception:  # noqa: BLE001 -- a class with a required child: the childless layout does not exist
            continue
        try:
            variants = preimage_variants(CLASSES[name], skel, kinds, "L")
            base = variants[0]
            twins = [v for v in variants if v.content_kind == "twin"]
            unknown = [v for v in variants if v.content_kind == "unknown" or (v.content_kind == "own" and v.content != base.content)]
            o.detail = {"registry_answers_explored": [[a for _, a in v.env_trace] for v in variants], "content_id_source": [v.content_kind for v in variants]}
            if unknown:
                o.detail["reason"] = "content_id takes a value the translator cannot relate to the node's content under some registry answer"
            elif not twins:
                o.status = "discharged"
            else:
                T = _pre(name, kinds, layout, "R")
                lines = ["(set-logic QF_SLIA)", "(set-option :produce-models true)"]
                seen: set[str] = set()
                for v in free_vars(base.ident) + free_vars(T.ident) + free_vars(base.content) + free_vars(T.content):
                    if v.name not in seen:
                        seen.add(v.name)
                        lines += emit.declare(v, str_bound, 2 * int(base.digest_size))
                        if v.kind == "fqn":
                            lines.append(f"(assert (str.contains {v.name} {emit.smt_str(URI_DELIM)}))")
                lines.append(f"(assert (= {emit.term(base.ident)} {emit.term(T.ident)}))")
                lines.append(f"(assert (not (= {emit.term(base.content)} {emit.term(T.content)})))")
                lines += ["(check-sat)", "(get-model)"]
                res = solvers.solve(o.name, "\n".join(lines) + "\n", min(timeout, 30), cross_timeout=8)
                o.solver, o.queries, o.seconds = f"cvc5={res['cvc5']}({res['cvc5_s']}s) z3={res['z3']}({res['z3_s']}s)", 2, res["seconds"]
                if res["verdict"] == "unsat":
                    o.status = "discharged"  # a registered node with this id has this content: copying its digest is sound
                elif res["verdict"] == "sat":
                    model = emit.parse_model(res["model_text"])
                    o.status, o.signature = "violated", f"content_id-copied-from-registered-node-with-colliding-id-text:{name}"
                    o.detail.update(model=model)
                    o.replay = {"regdep": {"cls": name, "kinds": kinds, "layout": layout}, "model": model}
                else:
                    o.detail.update(verdict=res["verdict"], raw=res["raw"])
        except Unencodable as ex:
            o.status, o.detail = "error", {"unencodable": str(ex)}
        out.append(o)
    return out


def _replay_regdep(payload) -> tuple[bool, str]:
    from pyoak.origin import URI_DELIM, MemoryTextSource, XMLFileOrigin, XMLPath

    spec, model = payload["regdep"], payload["model"]
    cls = CLASSES[spec["cls"]]

    def kwargs(tag: str) -> dict[str, Any]:
        kw: dict[str, Any] = {}
        for k, kind in spec["kinds"].items():
            if kind == "none":
                kw[k] = None
            else:
                raw = model.get(f"{tag}_{k}", {"str": "", "int": "0", "bool": "False"}[kind])
                kw[k] = int(raw) if kind == "int" else ((raw == "True") if kind == "bool" else raw)
        for f, how in spec["layout"].items():
            kw[f] = None if how is None else ()
        uri, _, path = model.get(f"{tag}_self_ofqn", URI_DELIM).partition(URI_DELIM)
        kw["origin"] = XMLFileOrigin(MemoryTextSource(_raw="", source_uri=uri), XMLPath(path))
        return kw

    reset_all()
    alone = cls(**kwargs("L"))
    expected = alone.content_id
    alone = None
    reset_all()
    registered = cls(**kwargs("R"))
    node = cls(**kwargs("L"))
    text = f"registered first: {registered!r}\nthen: {node!r}\ncontent_id with the first one registered: {node.content_id}; built alone: {expected}; ids: {registered.id} / {node.id}"
    return node.content_id != expected, text


def _frame_obligations() -> list[Obligation]:
    """Syntactic FRAME obligations on the generated terms."""
    from dataclasses import fields

    from src2smt.pe import free_vars

    out = []
    reset_all()
    for name, m in Z_MODELS.items():
        kinds, layout = m["kinds"][0], m["layouts"][-1]
        p = _pre(name, kinds, layout, "F")
        cvars = {v.name for v in free_vars(p.content)}
        ivars = {v.name for v in free_vars(p.ident)}
        comparable = {f.name for f in fields(CLASSES[name]) if f.compare and f.name not in ("id", "content_id", "origin")}
        allowed_c = {f"F_{k}" for k, kd in kinds.items() if k in comparable and kd != "none"} | {c.content_id.name for c in p.children.values()}
        allowed_i = allowed_c | {c.origin.fqn.name for c in p.children.values()} | {p.self_origin_fqn.name}
        ok = cvars <= allowed_c and ivars <= allowed_i and {c.content_id.name for c in p.children.values()} <= cvars and {f"F_{k}" for k, kd in kinds.items() if k in comparable and kd != "none"} <= cvars
        o = Obligation(f"FRAME:{name}", "Z", "discharged" if ok else "violated", solver="syntactic (free variables of the generated term)", queries=0)
        o.detail = {"content_vars": sorted(cvars), "id_vars": sorted(ivars), "accessor_calls": p.accessor_calls, "constructs": p.constructs, "helpers_inlined": p.inlined, "assumed": p.assumed}
        if not ok:
            o.signature = f"frame:{name}"
            o.replay = {"frame": name}
        out.append(o)
    return out


def _validate_translator() -> list[str]:
    """Concrete value vectors through the real __post_init__ (blake2b input recorded) and the term."""
    import hashlib

    import pyoak.node as N
    from src2smt.pe import evaluate

    errors: list[str] = []
    recorded: list[bytes] = []

    class _Spy:
        def __getattr__(self, k):
            return getattr(hashlib, k)

        @staticmethod
        def blake2b(data, **kw):
            recorded.append(bytes(data))
            return hashlib.blake2b(data, **kw)

    cases = [
        ("VStr2", {"a": "x:=(", "b": ")@[]é"}, {}), ("VLeaf", {"v": -17}, {}), ("VRich", {"i": 0, "s": "", "b": True, "n": None}, {}),
        ("VMixed", {"v": 3}, {"first": "one", "items": 2, "one": "one"}), ("VMany", {}, {"items": 2}), ("VAbAc", {}, {"ab": None, "ac": "one"}), ("VStrKid", {"s": "q"}, {"kid": "one"}),
    ]
    for cls_name, values, layout in cases:
        reset_all()
        kinds = {k: ("none" if v is None else type(v).__name__) for k, v in values.items()}
        pre = _pre(cls_name, kinds, layout, "V")
        sk = _skeleton(cls_name, layout)
        kw = {f: getattr(sk, f) for f in layout}
        sk = None  # no equal node is registered while the real constructor is observed
        old = N.hashlib
        N.hashlib = _Spy()
        try:
            recorded.clear()
            node = CLASSES[cls_name](**kw, **values)
        finally:
            N.hashlib = old
        vals = {f"V_{k}": v for k, v in values.items()}
        vals["V_self_ofqn"] = node.origin.fqn
        for (f, i), ch in pre.children.items():
            real = getattr(node, f) if i is None else getattr(node, f)[i]
            vals[ch.content_id.name] = real.content_id
            vals[ch.origin.fqn.name] = real.origin.fqn
        # the order of the two digest computations is the code's business: both terms must be
        # among the byte strings the real constructor hashed, and it must have hashed nothing else
        real = sorted(r.decode() for r in recorded)
        got_c, got_i = evaluate(pre.content, vals), evaluate(pre.ident, vals)
        if real != sorted([got_c, got_i]):
            errors.append(f"translator validation failed for {cls_name}: real={real!r} terms={[got_c, got_i]!r}")
    return errors


def _z_runner(tier: str, seed: int, workers: int) -> list[Obligation]:
    from concurrent.futures import ThreadPoolExecutor

    errs = _validate_translator()
    if errs:
        raise HarnessFailure("; ".join(errs))
    specs = z_obligation_specs(tier)
    bound = 24 if tier == "quick" else 40
    timeout = 90 if tier == "quick" else 400
    obs = _frame_obligations() + _regdep_obligations(bound, timeout)
    with ThreadPoolExecutor(max_workers=max(1, workers // 2)) as ex:
        obs += list(ex.map(lambda ob: _solve_obligation(ob, bound, timeout), specs))
    return obs


def replay_obligation(payload):
    """Feed the model's values to the real constructor."""
    from models.zoo import VLeaf

    reset_all()
    if "frame" in payload:
        o = [x for x in _frame_obligations() if x.name == f"FRAME:{payload['frame']}"][0]
        return o.status == "violated", f"free variables: {o.detail}"
    if "regdep" in payload:
        return _replay_regdep(payload)
    ob, model = payload["ob"], payload["model"]
    leaves: dict[str, Any] = {}

    def side(tag: str, spec):
        cls_name, kinds, layout = spec
        kw: dict[str, Any] = {}
        for k, kind in kinds.items():
            if kind == "none":
                kw[k] = None
            else:
                raw = model.get(f"{tag}_{k}", {"str": "", "int": "0", "bool": "False"}[kind])
                kw[k] = int(raw) if kind == "int" else ((raw == "True") if kind == "bool" else raw)
        for f, how in layout.items():
            def leaf(key):
                cid = model.get(key, key)
                if cid not in leaves:
                    leaves[cid] = VLeaf(v=5000 + len(leaves))
                return leaves[cid]

            if how is None:
                kw[f] = None
            elif how == "one":
                kw[f] = leaf(f"{tag}_{f}_s_cid")
            else:
                kw[f] = tuple(leaf(f"{tag}_{f}_{i}_cid") for i in range(how))
        return CLASSES[cls_name](**kw), (cls_name, {k: (type(v).__name__, v) for k, v in kw.items() if k in kinds}, {f: (None if v is None else ([id(c) for c in v] if isinstance(v, tuple) else id(v))) for f, v in kw.items() if f in layout})

    x, dx = side("L", ob["L"])
    y, dy = side("R", ob["R"])
    text = f"left={x!r}\nright={y!r}\ncontent_id equal: {x.content_id == y.content_id}; structurally equal: {dx == dy}"
    return (x.content_id == y.content_id and dx != dy), text


# ------------------------------------------------------------------ engine P
def _struct(recipe: Any) -> Any:
    """Structural content of a recipe: class, comparable properties with their types, children."""
    from dataclasses import fields

    from models.zoo import _is_recipe

    if recipe is None:
        return None
    cls, props, _origin, kids = recipe
    cmp_fields = {f.name for f in fields(CLASSES[cls]) if f.compare}
    p = tuple(sorted((k, type(v).__name__, _canon(v)) for k, v in props if k in cmp_fields))
    ks = []
    for fname, val in kids:
        if val is None:
            continue  # a missing optional child: nothing at this field
        if _is_recipe(val):
            ks.append((fname, "one", _struct(val)))
        else:
            ks.append((fname, "seq", tuple(_struct(c) for c in val)))
    return (cls, p, tuple(sorted(ks)))


class _Ver:
    """A user value class: equality, hash and str() by value - and the default repr(), which spells
    the object's address."""

    def __init__(self, *parts: int) -> None:
        self.parts = parts

    def __eq__(self, o: object) -> bool:
        return type(o) is _Ver and o.parts == self.parts

    def __hash__(self) -> int:
        return hash(self.parts)

    def __str__(self) -> str:
        return ".".join(map(str, self.parts))

    def __canon__(self) -> Any:
        return ("_Ver", self.parts)


def _canon(v: Any) -> Any:
    if hasattr(v, "__canon__"):
        return v.__canon__()
    if isinstance(v, frozenset):
        return ("frozenset", tuple(sorted(map(repr, v))))
    return repr(v)


def edits(recipe: Any) -> list[tuple[str, Any]]:
    """Single edits of a recipe: (label, edited recipe)."""
    from models.zoo import _is_recipe

    out: list[tuple[str, Any]] = []

    def rebuild(path, fn, node=recipe):
        if not path:
            return fn(node)
        cls, props, origin, kids = node
        (fname, idx), rest = path[0], path[1:]
        nk = []
        for f, val in kids:
            if f != fname:
                nk.append((f, val))
            elif idx is None:
                nk.append((f, rebuild(rest, fn, val)))
            else:
                nk.append((f, tuple(rebuild(rest, fn, c) if i == idx else c for i, c in enumerate(val))))
        return (cls, props, origin, tuple(nk))

    def walk(node, path):
        cls, props, origin, kids = node
        pd = dict(props)
        if "v" in pd:
            out.append((f"value@{path}", rebuild(path, lambda n: (n[0], tuple(sorted({**dict(n[1]), "v": dict(n[1])["v"] + 1000}.items())), n[2], n[3]))))
            out.append((f"type-bool@{path}", rebuild(path, lambda n: (n[0], tuple(sorted({**dict(n[1]), "v": True}.items())), n[2], n[3]))))
            out.append((f"type-str@{path}", rebuild(path, lambda n: (n[0], tuple(sorted({**dict(n[1]), "v": str(dict(n[1])["v"])}.items())), n[2], n[3]))))
            out.append((f"type-float@{path}", rebuild(path, lambda n: (n[0], tuple(sorted({**dict(n[1]), "v": float(dict(n[1])["v"])}.items())), n[2], n[3]))))
        out.append((f"origin@{path}", rebuild(path, lambda n: (n[0], n[1], "b" if n[2] != "b" else "c", n[3]))))
        if cls in ("VTwinA", "VTwinB"):
            out.append((f"sibling-class@{path}", rebuild(path, lambda n: ("VTwinB" if n[0] == "VTwinA" else "VTwinA", n[1], n[2], n[3]))))
        if cls == "VLeaf":
            out.append((f"subclass@{path}", rebuild(path, lambda n: ("VSubLeaf", n[1], n[2], n[3]))))
        for f, val in kids:
            if val is None:
                out.append((f"add-optional:{f}@{path}", rebuild(path, lambda n, f=f: (n[0], n[1], n[2], tuple((ff, R("VLeaf", {"v": 777}) if ff == f else vv) for ff, vv in n[3])))))
            elif _is_recipe(val):
                if f in ("one", "extra", "ab", "ac", "kid"):
                    out.append((f"drop-optional:{f}@{path}", rebuild(path, lambda n, f=f: (n[0], n[1], n[2], tuple((ff, None if ff == f else vv) for ff, vv in n[3])))))
                walk(val, path + [(f, None)])
            else:
                if len(val) >= 2 and _struct(val[0]) != _struct(val[1]):
                    out.append((f"swap:{f}@{path}", rebuild(path, lambda n, f=f: (n[0], n[1], n[2], tuple((ff, (vv[1], vv[0], *vv[2:]) if ff == f else vv) for ff, vv in n[3])))))
                if len(val) >= 1:
                    out.append((f"drop-last:{f}@{path}", rebuild(path, lambda n, f=f: (n[0], n[1], n[2], tuple((ff, vv[:-1] if ff == f else vv) for ff, vv in n[3])))))
                    out.append((f"dup-last:{f}@{path}", rebuild(path, lambda n, f=f: (n[0], n[1], n[2], tuple((ff, (*vv, vv[-1]) if ff == f else vv) for ff, vv in n[3])))))
                for i, c in enumerate(val):
                    walk(c, path + [(f, i)])
        if cls == "VAbAc":
            kd = dict(kids)
            out.append((f"move-between-fields@{path}", rebuild(path, lambda n: (n[0], n[1], n[2], (("ab", dict(n[3])["ac"]), ("ac", dict(n[3])["ab"]))))))
            _ = kd

    walk(recipe, [])
    return out


EXTRA_BASES = [
    R("VTwinA", {"v": 1}, kid=R("VLeaf", {"v": 2})), R("VTwinA", {"v": 1}, kid=None), R("VNonCmp", {"v": 1, "note": "n1"}),
    R("VStr2", {"a": ":=()[]@", "b": "x"}), R("VStr2", {"a": "p" * 64 + "A" * 16, "b": ""}), R("VRich", {"i": 1, "s": "s", "b": True, "n": None, "t": (1, 2), "fs": frozenset([1, 2])}),
    R("VNonInit", {"v": 4}), R("VMany", items=(R("VTwinA", {"v": 1}), R("VTwinB", {"v": 1}))),
]
SPECIAL_PAIRS = [
    ("non-comparable-property", R("VNonCmp", {"v": 1, "note": "n1"}), R("VNonCmp", {"v": 1, "note": "other"})),
    # text that is not encodable as strict UTF-8 (a lone surrogate: JS / JSON string literals, surrogateescape-decoded
    # file names) next to its spelled-out escapes: if such nodes can be built at all, they are different content
    ("lone-surrogate-vs-its-escape", R("VStr2", {"a": "\ud83d", "b": ""}), R("VStr2", {"a": "\\ud83d", "b": ""})),
    ("lone-surrogate-vs-replacement-character", R("VStr2", {"a": "x\udc80", "b": ""}), R("VStr2", {"a": "x\ufffd", "b": ""})),
    ("lone-surrogate-vs-question-mark", R("VStr2", {"a": "\udcff", "b": ""}), R("VStr2", {"a": "?", "b": ""})),
    ("lone-surrogate-vs-nothing", R("VStr2", {"a": "a\ud800b", "b": ""}), R("VStr2", {"a": "ab", "b": ""})),
    ("two-lone-surrogates", R("VStr2", {"a": "\ud800", "b": ""}), R("VStr2", {"a": "\ud801", "b": ""})),
    ("lone-surrogate-vs-xml-escape", R("VStr2", {"a": "\ud83d", "b": ""}), R("VStr2", {"a": "&#55357;", "b": ""})),
    ("lone-surrogate-vs-name-escape", R("VStr2", {"a": "\ud83d", "b": ""}), R("VStr2", {"a": "\\N{U+D83D}", "b": ""})),
    # equal values of equal types held as distinct objects (a user value class that defines ==, hash and str)
    ("equal-value-objects", R("VStr2", {"a": _Ver(1, 2), "b": "x"}), R("VStr2", {"a": _Ver(1, 2), "b": "x"})),
    ("equal-value-objects-below-a-parent", R("VMany", items=(R("VStr2", {"a": _Ver(3), "b": ""}),)), R("VMany", items=(R("VStr2", {"a": _Ver(3), "b": ""}),))),
    ("different-value-objects", R("VStr2", {"a": _Ver(1, 2), "b": "x"}), R("VStr2", {"a": _Ver(1, 3), "b": "x"})),
    # set-valued properties: different sets whose members print alike
    ("frozenset-item-with-separator-vs-split-items", R("VRich", {"fs": frozenset({"x, y"})}), R("VRich", {"fs": frozenset({"x", "y"})})),
    ("frozenset-int-items-vs-str-items", R("VRich", {"fs": frozenset({1, 2})}), R("VRich", {"fs": frozenset({"1", "2"})})),
    ("frozenset-one-vs-two-items", R("VRich", {"fs": frozenset({"a"})}), R("VRich", {"fs": frozenset({"a", "b"})})),
    ("frozenset-empty-vs-empty-string-item", R("VRich", {"fs": frozenset()}), R("VRich", {"fs": frozenset({""})})),
    ("frozenset-bool-vs-int-item", R("VRich", {"fs": frozenset({True})}), R("VRich", {"fs": frozenset({1})})),
    ("long-common-prefix", R("VStr2", {"a": "p" * 64 + "A" * 16, "b": ""}), R("VStr2", {"a": "p" * 64 + "B" * 16, "b": ""})),
    ("tuple-order", R("VRich", {"t": (1, 2)}), R("VRich", {"t": (2, 1)})),
    ("int-vs-bool-in-optional", R("VRich", {"n": 1}), R("VRich", {"n": True})),
    ("empty-vs-none-string", R("VStr2", {"a": "None", "b": ""}), R("VStr2", {"a": "", "b": "None"})),
    ("frozenset-build-order", R("VRich", {"fs": frozenset([8, 16, 0])}), R("VRich", {"fs": frozenset([16, 8, 0])})),
    ("frozenset-build-order-small", R("VRich", {"fs": frozenset([1, 2])}), R("VRich", {"fs": frozenset([2, 1])})),
    ("enum-class-differs", R("VRich", {"e": _Z.Color.RED}), R("VRich", {"e": _Z.Shade.RED})),
    ("enum-member-vs-its-value", R("VRich", {"e": _Z.Color.BLUE}), R("VRich", {"e": 2})),
    ("enum-member-differs", R("VRich", {"e": _Z.Color.RED}), R("VRich", {"e": _Z.Color.BLUE})),
    ("bool-vs-int", R("VRich", {"i": True}), R("VRich", {"i": 1})),
    ("float-vs-bool", R("VRich", {"f": 1.0}), R("VRich", {"f": True})),
    ("bool-vs-float-zero", R("VRich", {"f": False}), R("VRich", {"f": 0.0})),
    ("float-vs-int-in-optional", R("VRich", {"n": 7.0}), R("VRich", {"n": 7})),
    ("int-vs-float", R("VRich", {"i": 1}), R("VRich", {"i": 1.0})),
    ("none-vs-string-None", R("VRich", {"n": None}), R("VRich", {"n": "None"})),
    ("field-flag-hash-false", R("VFlags", {"h": 1}), R("VFlags", {"h": 2})),
    ("field-flag-repr-false", R("VFlags", {"r": 1}), R("VFlags", {"r": 2})),
    ("field-flag-metadata", R("VFlags", {"m": 1}), R("VFlags", {"m": 2})),
    ("field-flag-default-factory", R("VFlags", {"d": 1}), R("VFlags", {"d": 2})),
    ("field-flag-kw-only", R("VFlags", {"k": 1}), R("VFlags", {"k": 2})),
    ("field-flag-hash-true-compare-false", R("VFlags", {"nh": 1}), R("VFlags", {"nh": 2})),
    ("field-flag-hash-false-below-a-parent", R("VMany", items=(R("VFlags", {"h": 1}),)), R("VMany", items=(R("VFlags", {"h": 2}),))),
    ("field-flag-values-swapped", R("VFlags", {"h": 1, "r": 2}), R("VFlags", {"h": 2, "r": 1})),
    ("separator-strings", R("VStr2", {"a": "1):b=<class 'str'>(2", "b": "3"}), R("VStr2", {"a": "1", "b": "2):b=<class 'str'>(3"})),
]


def _assert_pair(e, x, y, rx, ry, scenario):
    want = _struct(rx) == _struct(ry)
    got_cid = x.content_id == y.content_id
    got_eq = x.is_equal(y)
    got_eq2 = y.is_equal(x)
    scenario.update(content_id_equal=got_cid, is_equal=got_eq, structurally_equal=want)
    if got_cid != want or got_eq != want or got_eq2 != want:
        e.fail(scenario.get("kind", "pair") + (":equal-content-different-id" if want else ":different-content-same-id"), scenario=scenario)
    if x.content_id != x.content_id or not x.is_equal(x):
        e.fail("is_equal-not-reflexive", scenario=scenario)


def make_edit_harness(bases: list[Any]):
    def harness(e):
        reset_all()
        bno = e.choice(len(bases), "base")
        base = bases[bno]
        eds = edits(base)
        k = e.choice(len(eds) + 1, "edit")
        label, other = ("identity", base) if k == len(eds) else eds[k]
        twins = e.flag("registry_prepopulated_with_twins")
        keep = []
        if twins:
            keep = [build(base), build(other)]
        x, y = build(base), build(other)
        scenario = {"kind": label.split("@")[0].split(":")[0], "edit": label, "base": describe(base), "other": describe(other), "twins_registered": twins}
        _assert_pair(e, x, y, base, other, scenario)
        cid_before = x.content_id
        del keep
        if x.content_id != cid_before:
            e.fail("content_id-changed-during-lifetime", scenario=scenario)
        e.distinct((bno, k, twins))
        return {"base": bno, "edit": label}

    return harness


def make_pairs_harness(recipes: list[Any]):
    def harness(e):
        reset_all()
        i = e.choice(len(recipes), "left")
        j = e.choice(len(recipes), "right")
        x, y = build(recipes[i]), build(recipes[j])
        _assert_pair(e, x, y, recipes[i], recipes[j], {"kind": "all-pairs", "left": describe(recipes[i]), "right": describe(recipes[j])})
        e.distinct((i, j))
        return {"left": i, "right": j}

    return harness


def special_harness(e):
    reset_all()
    k = e.choice(len(SPECIAL_PAIRS), "pair")
    label, ra, rb = SPECIAL_PAIRS[k]
    try:
        x, y = build(ra), build(rb)
    except UnicodeEncodeError:
        # the library refuses text it cannot encode: nothing to compare (the statement is about nodes)
        e.count("unencodable_text_refused")
        e.assume(False)
    _assert_pair(e, x, y, ra, rb, {"kind": label, "left": describe(ra), "right": describe(rb)})
    e.distinct(k)
    return {"pair": label}


LOADED_CASES = [
    # (tree, path to the mapping that is edited inside the payload, key, new value, the same tree built normally)
    ("edited-property", R("VMany", items=(R("VLeaf", {"v": 1}), R("VLeaf", {"v": 2}))), ["items", 1], "v", 3, R("VMany", items=(R("VLeaf", {"v": 1}), R("VLeaf", {"v": 3})))),
    ("edited-property-at-root", R("VStr2", {"a": "x", "b": "y"}), [], "b", "z", R("VStr2", {"a": "x", "b": "z"})),
    ("edited-grandchild", R("VReq", child=R("VReq", child=R("VLeaf", {"v": 1}))), ["child", "child"], "v", 9, R("VReq", child=R("VReq", child=R("VLeaf", {"v": 9})))),
    ("value-normalised-by-the-format", R("VRich", {"f": 1}), [], None, None, R("VRich", {"f": 1.0})),
]


def loaded_harness(e):
    """Nodes that come out of deserialization: content_id is the digest of the content the node
    HAS (whatever digest the payload carries), also for every ancestor."""
    reset_all()
    k = e.choice(len(LOADED_CASES), "case")
    label, recipe, path, key, value, expected_recipe = LOADED_CASES[k]
    fmt = e.pick(["dict", "json", "msgpack", "yaml"], "format")
    original = build(recipe)
    cls = type(original)
    data = original.as_dict()
    if key is not None:
        d = data
        for step in path:
            d = d[step]
        d[key] = value
    original.detach()
    original = None
    if fmt == "dict":
        loaded = cls.as_obj(data)
    elif fmt == "json":
        import orjson

        loaded = cls.from_json(orjson.dumps(data))
    elif fmt == "msgpack":
        import msgpack

        loaded = cls.from_msgpck(msgpack.packb(data, use_bin_type=True))
    else:
        import yaml

        loaded = cls.from_yaml(yaml.safe_dump(data))
    fresh = build(expected_recipe)
    scenario = {"kind": "loaded-" + label, "format": fmt, "loaded": repr(loaded)[:300], "built": repr(fresh)[:300]}
    if key is None and type(getattr(loaded, "f", None)) is not type(getattr(fresh, "f", None)):
        e.assume(False)  # this format keeps the value as it was: nothing was normalised
    got = [loaded.content_id == fresh.content_id, loaded.is_equal(fresh), fresh.is_equal(loaded)]
    if not all(got):
        scenario.update(content_id_equal=got[0], is_equal=got[1])
        e.fail("loaded-node-content_id-is-not-the-digest-of-its-content:" + label, scenario=scenario)
    e.distinct((k, fmt))
    return scenario


def field_order_harness(e):
    """The order in which the class declares its fields never influences the digest."""
    import sys
    import types

    reset_all()
    order = e.pick([("a", "b", "kid"), ("kid", "b", "a"), ("b", "kid", "a")], "declaration_order")
    decl = {"a": "a: int = 0", "b": "b: str = ''", "kid": "kid: VBase | None = None"}
    src = "from dataclasses import dataclass\nfrom models.zoo import VBase\n\n@dataclass(frozen=True)\nclass VPermuted(VBase):\n" + "".join(f"    {decl[f]}\n" for f in order)
    mod = sys.modules.get("vgen_perm") or types.ModuleType("vgen_perm")
    sys.modules["vgen_perm"] = mod
    from models.zoo import VLeaf

    ref_src = src.replace("".join(f"    {decl[f]}\n" for f in order), "".join(f"    {decl[f]}\n" for f in ("a", "b", "kid")))
    exec(compile(ref_src, "vgen_perm", "exec", dont_inherit=True), mod.__dict__)
    ref_cls = mod.__dict__["VPermuted"]
    ref = ref_cls(a=3, b="x", kid=VLeaf(v=1))
    exec(compile(src, "vgen_perm", "exec", dont_inherit=True), mod.__dict__)
    cls = mod.__dict__["VPermuted"]
    node = cls(a=3, b="x", kid=VLeaf(v=1))
    if node.content_id != ref.content_id:
        e.fail("field-declaration-order-influences-content_id", scenario={"order": list(order), "reference_order": ["a", "b", "kid"]})
    e.distinct(order)
    return {"order": list(order)}


_REL: dict[str, Any] = {}


def _relatives():
    """Classes related by inheritance, some of them sharing one __name__ (a dialect module
    re-declaring `class Name(base.Name)` is legitimate inside one module): 'instances of the same
    class' is about the class object, not about its name or its ancestry."""
    if not _REL:
        import sys
        import types

        mod = types.ModuleType("vgen_relatives")
        sys.modules["vgen_relatives"] = mod
        src = (
            "from dataclasses import dataclass, field\nfrom models.zoo import VBase\n\n"
            "@dataclass(frozen=True)\nclass VRel(VBase):\n    v: int = 0\n    kid: VBase | None = None\n\nVRelBase = VRel\n\n"
            "@dataclass(frozen=True)\nclass VRel(VRelBase):\n    pass\n\nVRelSameName = VRel\n\n"
            "@dataclass(frozen=True)\nclass VRel(VRelBase):\n    note: str = field(default='', compare=False)\n    extra: VBase | None = None\n\nVRelSameNameNc = VRel\n\n"
            "@dataclass(frozen=True)\nclass VRelSub(VRelBase):\n    pass\n\n"
            "@dataclass(frozen=True)\nclass VRelSubSub(VRelSub):\n    note: str = field(default='', compare=False)\n"
        )
        exec(compile(src, "vgen_relatives", "exec", dont_inherit=True), mod.__dict__)
        for k in ("VRelBase", "VRelSameName", "VRelSameNameNc", "VRelSub", "VRelSubSub"):
            _REL[k] = mod.__dict__[k]
    return _REL


def noninit_harness(e):
    """Comparable init=False properties (a counter, a value computed from an argument) are content."""
    from models.zoo import VMany, VSerial

    reset_all()
    na, nb = e.pick(["t", "tt", "ttt"], "left_name"), e.pick(["t", "tt", "ttt"], "right_name")
    below = e.flag("below_a_parent")
    x, y = VSerial(name=na), VSerial(name=nb)
    same = na == nb and x.serial == y.serial and x.size == y.size  # never: the serials differ
    px, py = (VMany(items=(x,)), VMany(items=(y,))) if below else (x, y)
    got = (px.content_id == py.content_id, px.is_equal(py), py.is_equal(px))
    scenario = {"kind": "non-init-comparable-properties", "left": {"name": na, "serial": x.serial, "size": x.size}, "right": {"name": nb, "serial": y.serial, "size": y.size}, "below_a_parent": bool(below), "content_id_equal": got[0], "is_equal": got[1]}
    if got != (same, same, same):
        e.fail("non-init-comparable-property:different-content-same-id", scenario=scenario)
    # and equal values give equal content: a copy made by dataclasses.replace keeps both non-init values? no --
    # init=False fields are recomputed, so only self-comparison is asserted here
    if not x.is_equal(x) or x.content_id != x.content_id:
        e.fail("is_equal-not-reflexive", scenario=scenario)
    e.distinct((na, nb, bool(below)))
    return scenario


def relatives_harness(e):
    from models.zoo import VLeaf

    reset_all()
    C = _relatives()
    names = sorted(C)
    a = e.pick(names, "left_class")
    b = e.pick(names, "right_class")
    with_kid = e.flag("with_child")
    first = e.pick(["left-built-first", "right-built-first"], "order")

    def mk(k):
        return C[k](v=1, kid=VLeaf(v=2) if with_kid else None)

    (x, y) = (mk(a), mk(b)) if first == "left-built-first" else tuple(reversed((mk(b), mk(a))))
    want = a == b
    got = (x.is_equal(y), y.is_equal(x))
    scenario = {"kind": "class-relatives", "left_class": a, "right_class": b, "same_name": C[a].__name__ == C[b].__name__, "with_child": bool(with_kid), "is_equal": got[0], "is_equal_reversed": got[1]}
    if got != (want, want):
        e.fail("class-relatives:" + ("same-class-not-equal" if want else "instances-of-different-classes-are-is_equal"), scenario=scenario)
    if C[a].__name__ != C[b].__name__ and x.content_id == y.content_id:
        e.fail("class-relatives:different-content-same-id", scenario=scenario)
    if want and x.content_id != y.content_id:
        e.fail("class-relatives:equal-content-different-id", scenario=scenario)
    for other in (None, 1, "x", (x,), object()):
        if x.is_equal(other) is not False:
            e.fail("class-relatives:is_equal-with-a-non-node", scenario=scenario)
    e.distinct((a, b, bool(with_kid), first))
    return scenario


_MI: dict[str, Any] = {}


def mi_harness(e):
    """Classes with two node bases / empty bodies: the digest must cover the fields of every base,
    whichever class of the family was used first."""
    from models import classgen as G
    from models.zoo import VLeaf

    reset_all()
    first = e.pick(["MNamed", "MBodied", "MFunc", "MEmpty"], "class_used_first")
    if _MI.get("first") != first:
        tag, C = G.make_mi_classes()
        _MI.clear()
        _MI.update(first=first, C=C)
    C = _MI["C"]
    for k in [first] + sorted(C):
        C[k]()
    F = C[e.pick(["MFunc", "MEmpty", "MOverride"], "class")]
    has_body = "body" in F.__dataclass_fields__
    variants = [
        ("base", {}), ("label", {"label": 7}), ("name_kid", {"name_kid": VLeaf(v=1)}), ("name_kid-other", {"name_kid": VLeaf(v=2)}),
    ] + ([("body", {"body": (VLeaf(v=1),)}), ("body-other", {"body": (VLeaf(v=2),)}), ("body-two", {"body": (VLeaf(v=1), VLeaf(v=2))}), ("flag-noncompare", {"flag": 9})] if has_body else [])
    i = e.choice(len(variants), "left")
    j = e.choice(len(variants), "right")
    x, y = F(**variants[i][1]), F(**variants[j][1])
    noncmp = {"flag-noncompare", "base"} | ({"label"} if F.__name__.startswith("MOverride") else set())
    same = i == j or ({variants[i][0], variants[j][0]} <= noncmp)
    got = (x.content_id == y.content_id, x.is_equal(y))
    if got != (same, same):
        e.fail("multiple-inheritance:" + ("equal-content-different-id" if same else "different-content-same-id"), scenario={"class_used_first": first, "class": F.__name__, "left": variants[i][0], "right": variants[j][0], "content_id_equal": got[0], "is_equal": got[1]})
    e.distinct((first, F.__name__, i, j))
    return {"first": first, "class": F.__name__, "pair": (variants[i][0], variants[j][0])}


def after_failure_harness(e):
    """Ids are functions of the node alone: a construction that was rejected a moment ago (anywhere in
    the process, whatever the class) leaves nothing behind for the next node that is built."""
    from models.shapes import number

    reset_all()
    pool = [number(x) for x in all_shapes(3, 3)] + EXTRA_BASES[:6]
    rno = e.choice(len(pool), "recipe")
    recipe = pool[rno]
    ref = build(recipe)
    want = [(type(i.node).__name__, i.node.id, i.node.content_id) for i in ref.dfs()] + [(type(ref).__name__, ref.id, ref.content_id)]
    ref.detach()
    del ref
    failure = e.pick(["a-non-node-in-a-tuple-child-field", "None-for-a-tuple-child-field", "an-unknown-keyword", "a-property-whose-str-raises", "an-origin-without-fqn"], "rejected_construction")

    class _Bad:
        def __str__(self):
            raise RuntimeError("no text")

        __repr__ = __str__

    try:
        if failure.startswith("a-non-node"):
            CLASSES["VMany"](items=(CLASSES["VLeaf"](v=5), 1))
        elif failure.startswith("None-for"):
            CLASSES["VMany"](items=None)
        elif failure.startswith("an-unknown"):
            CLASSES["VLeaf"](v=1, nope=2)
        elif failure.startswith("a-property"):
            CLASSES["VTyped"](a=_Bad())
        else:
            CLASSES["VLeaf"](v=1, origin=object())
        raised = False
    except Exception:  # noqa: BLE001
        raised = True
    from pyoak.node import NODE_REGISTRY

    NODE_REGISTRY.clear()
    again = build(recipe)
    got = [(type(i.node).__name__, i.node.id, i.node.content_id) for i in again.dfs()] + [(type(again).__name__, again.id, again.content_id)]
    scenario = {"tree": describe(recipe), "rejected_construction": failure, "it_raised": raised}
    if got != want:
        scenario.update(ids_without_the_failure=want[:4], ids_after_the_failure=got[:4])
        e.fail("ids-depend-on-an-earlier-rejected-construction", scenario=scenario)
    e.distinct((rno, failure))
    return scenario


def spec(tier: str, seed: int) -> Spec:
    n_pairs, n_edit = (3, 4) if tier == "quick" else (4, 6)
    small = all_shapes(n_pairs, 3)
    bases = all_shapes(n_edit, 3) + EXTRA_BASES
    if tier == "quick":
        bases = all_shapes(3, 3) + all_shapes(n_edit, 3)[40::2] + EXTRA_BASES
    chunk = 10
    var = "selectors: base recipe, edit, registry pre-population"
    fams = [Family(f"edits[{k}:{k + chunk}]", make_edit_harness(bases[k : k + chunk]), variables=var) for k in range(0, len(bases), chunk)]
    fams.append(Family("all-pairs", make_pairs_harness(small), variables="selectors: two recipes"))
    fams.append(Family("special-pairs", special_harness, variables="selector: pair from a pool of value-level cases"))
    fams.append(Family("loaded-nodes", loaded_harness, variables="selectors: payload case (edited property / value normalised by the format), format"))
    fams.append(Family("after-a-rejected-construction", after_failure_harness, variables="selectors: recipe, kind of rejected construction just before"))
    fams.append(Family("field-order", field_order_harness, variables="selector: declaration order of the class"))
    fams.append(Family("non-init-comparable-properties", noninit_harness, variables="selectors: names (the computed property follows), position"))
    fams.append(Family("class-relatives", relatives_harness, variables="selectors: two classes from a family related by inheritance (three of them share one __name__), child, construction order"))
    fams.append(Family("multiple-inheritance", mi_harness, variables="selectors: class used first, class, two value variants"))
    return Spec(
        families=fams,
        obligation_runners=[_z_runner],
        functions=FUNCTIONS,
        bounds={"Z": f"strings <= {24 if tier == 'quick' else 40} code units, unbounded ints, 13 model classes, tuple width <= {2 if tier == 'quick' else 3}; child content ids constrained to [0-9a-f]{{2*ID_DIGEST_SIZE}}", "P": f"all pairs over recipes with <= {n_pairs} nodes; every single edit of {len(bases)} base recipes (<= {n_edit} nodes)"},
        rule="Z: one SMT obligation per (class, layouts, kinds) with a satisfiable sanity twin; P: a case = (base recipe, edit, twins) or a pair; all non-trivial; distinct by that tuple",
        variables="data: symbolic property strings / ints / bools and child digests (Z); selectors: recipes, edits (P)",
        assumptions=["H injective: no blake2b collisions at the configured digest size; UTF-8 encoding injective", "child content ids have the hexdigest format", "translator validated on every run against the real __post_init__ with hashlib.blake2b wrapped to record its input"],
        outside=["strings longer than the bound", "floats, enums and repr-rendered containers symbolically (pool values only)", "trees built in different processes / hash seeds", "blake2b collisions"],
        stubs=["hashlib.blake2b(...).hexdigest() -> H(pre-image), H injective", "config.RUNTIME_TYPE_CHECK = False during encoding"],
    )


def _plant_cid_drop_class():
    _patch_post_init(lambda src: src.replace("cid_data = self.__class__.__name__ + cid_data", "cid_data = 'N' + cid_data"))


def _plant_cid_child_unordered():
    # children are digested as a multiset: sorted by content id, without their index
    _patch_post_init(
        lambda src: src.replace(
            "for c, f, i in self.get_child_nodes_with_field(sort_keys=True):",
            "for c, f, i in sorted(self.get_child_nodes_with_field(sort_keys=True), key=lambda x: (x[1].name, x[0].content_id)):",
        ).replace('cid_data += f":{f.name}[{resolved_index}]="', 'cid_data += f":{f.name}[]="')
    )


def _plant_cid_fname_initial():
    _patch_post_init(lambda src: src.replace('cid_data += f":{f.name}[{resolved_index}]="', 'cid_data += f":{f.name[0]}[{resolved_index}]="'))


def _patch_post_init(edit):
    """Re-compiles ASTNode.__post_init__ from edited source (the engines read the source
    through inspect.getsource, so the patched function carries its own source)."""
    import inspect
    import linecache
    import textwrap

    import pyoak.node as N

    src = textwrap.dedent(inspect.getsource(N.ASTNode.__post_init__))
    new = edit(src)
    assert new != src, "plant did not apply"
    fname = "<planted __post_init__>"
    linecache.cache[fname] = (len(new), None, new.splitlines(True), fname)
    ns: dict[str, Any] = {}
    exec(compile(new, fname, "exec"), N.__dict__, ns)
    N.ASTNode.__post_init__ = ns["__post_init__"]


PLANTED = {"cid_drop_class": _plant_cid_drop_class, "cid_child_unordered": _plant_cid_child_unordered, "cid_fname_initial": _plant_cid_fname_initial}
