"""Shared exploration of legacy (parent-aware) operation histories for C18 and C19.

Engine P (selectors): initial forest, operation, receiver and argument per step.
After every *successful* operation the structural invariant of C18 is checked on
every attached node; when an operation is rejected with a documented error the
frame condition of C19 is checked against a snapshot taken before the call.
"""
from __future__ import annotations

import dataclasses
import weakref
from typing import Any

from models import legacy_zoo as LZ
from models.zoo import R

DOCUMENTED = (
    "ASTNodeDuplicateChildrenError", "ASTNodeParentCollisionError", "ASTNodeRegistryCollisionError", "ASTNodeIDCollisionError",
    "ASTNodeReplaceError", "ASTNodeReplaceWithError", "ASTTransformError",
)
MAX_HANDLES = 9


def forests() -> list[tuple[list[Any], list[list[tuple]]]]:
    """(recipes, designated handle paths per recipe)."""
    L = lambda v: R("LLeaf", {"v": v})  # noqa: E731
    return [
        ([R("LTup", items=(L(1), R("LReq", child=L(2)), L(3)))], [[[], [("items", 0)], [("items", 1)], [("items", 1), ("child", None)], [("items", 2)]]]),
        ([R("LMix", {"v": 0}, first=L(1), items=(L(2), L(3)), one=L(4)), L(2)], [[[], [("first", None)], [("items", 1)], [("one", None)]], [[]]]),
        ([R("LList", elems=[L(1), R("LOpt", one=L(2))]), R("LOpt", one=None)], [[[], [("elems", 0)], [("elems", 1)], [("elems", 1), ("one", None)]], [[]]]),
        ([R("LNarrow", only=L(1)), R("LTup", items=(L(2),))], [[[], [("only", None)]], [[], [("items", 0)]]]),
        # a node with two sequence child fields: an index alone does not identify a position
        ([R("LTwoSeq", body=(L(1), L(2)), orelse=[L(3), R("LOpt", one=L(4)), L(5)]), R("LOptSeq", seq=(L(6), L(7)), lst=[L(8)])], [[[], [("body", 0)], [("orelse", 2)]], [[], [("seq", 0)], [("lst", 0)]]]),
        # nodes that are falsy in a boolean context (used by the `falsy-nodes` families only)
        ([R("LTup", items=(R("LFalsy", {"v": 1}), R("LOpt", one=R("LFalsy", {"v": 2})))), R("LFalsy", {"v": 3}), L(4)], [[[], [("items", 0)], [("items", 1)], [("items", 1), ("one", None)]], [[]], [[]]]),
        # content-equal branches (f(x); f(x)): twins of inner nodes, in one tree and in a second root (used by the `twin-branches` families only)
        ([R("LTup", items=(R("LReq", child=L(1)), R("LReq", child=L(1)), R("LOpt", one=R("LReq", child=L(1))))), R("LReq", child=L(1))], [[[], [("items", 0)], [("items", 0), ("child", None)], [("items", 1)], [("items", 2), ("one", None)]], [[]]]),
    ]


FALSY_FOREST = 5
TWIN_FOREST = 6
SEQ_FOREST = 4  # two sequence fields / optional sequence fields
SEQ_FIRST_OPS = ["replace_with-None", "replace-child", "replace-property", "replace_with", "transform-remove-even", "transformer-remove", "transform-inc", "wrap-tuple", "detach", "detach_self", "duplicate", "new-leaf-1"]
GUIDED_FORESTS = 4  # the guided families run on the first four forests


def _kids(n: Any) -> list[tuple[Any, str, int | None]]:
    out = []
    for f in dataclasses.fields(n):
        if not f.init or f.name in ("origin", "id", "original_id", "id_collision_with"):
            continue
        v = getattr(n, f.name)
        if isinstance(v, LZ.AwareASTNode):
            out.append((v, f.name, None))
        elif isinstance(v, (tuple, list)):
            for i, c in enumerate(v):
                if isinstance(c, LZ.AwareASTNode):
                    out.append((c, f.name, i))
    return out


def reachable(handles: list[Any]) -> dict[int, Any]:
    seen: dict[int, Any] = {}
    stack = [h for h in handles if h is not None]
    while stack:
        n = stack.pop()
        if id(n) in seen:
            continue
        seen[id(n)] = n
        for c, _f, _i in _kids(n):
            stack.append(c)
    return seen


def contains(a: Any, b: Any) -> bool:
    """b is a or a descendant of a (downward, by attribute access)."""
    return id(b) in reachable([a])


def _id_overlap(a: Any, r: Any) -> bool:
    ids_a = {n.id for n in reachable([a]).values()}
    ids_r = {n.id for n in reachable([r]).values()}
    p = r.parent
    hops = 0
    while p is not None and hops < 50:
        ids_r.add(p.id)
        p = p.parent
        hops += 1
    return bool(ids_a & ids_r)


def rebuild_content_id(n: Any) -> str:
    """content_id of an independently built equal tree (DESIGN appendix A.8): the same
    structure constructed normally while the registry is swapped for an empty one."""
    saved = LZ.AwareASTNode._nodes
    LZ.AwareASTNode._nodes = weakref.WeakValueDictionary()
    try:
        return _rebuild(n).content_id
    finally:
        LZ.AwareASTNode._nodes = saved


_CID_CACHE: dict[Any, str] = {}


def structure(n: Any) -> tuple:
    """Class, init field values and child structures of a node (what an equal tree is built from)."""
    parts: list[Any] = [type(n).__name__]
    for f in dataclasses.fields(n):
        if not f.init or f.name in ("id", "original_id", "id_collision_with", "content_id", "origin"):
            continue
        v = getattr(n, f.name)
        if isinstance(v, LZ.AwareASTNode):
            parts.append((f.name, structure(v)))
        elif isinstance(v, (tuple, list)):
            parts.append((f.name, type(v).__name__, tuple(structure(c) if isinstance(c, LZ.AwareASTNode) else c for c in v)))
        else:
            parts.append((f.name, v))
    return tuple(parts)


def expected_cid(n: Any) -> str:
    """content_id of an independently built equal tree.  content_id is a function of the structure
    only, so the result of one real rebuild (in an emptied registry) is memoised per structure."""
    key = structure(n)
    hit = _CID_CACHE.get(key)
    if hit is not None:
        return hit
    saved = LZ.AwareASTNode._nodes
    LZ.AwareASTNode._nodes = weakref.WeakValueDictionary()
    try:
        twin = _rebuild(n)
        stack = [twin]
        while stack:
            t = stack.pop()
            _CID_CACHE[structure(t)] = t.content_id
            stack.extend(c for c, _f, _i in _kids(t))
    finally:
        LZ.AwareASTNode._nodes = saved
    return _CID_CACHE[key]


def _rebuild(n: Any) -> Any:
    kw: dict[str, Any] = {}
    for f in dataclasses.fields(n):
        if not f.init or f.name in ("id", "original_id", "id_collision_with", "content_id"):
            continue
        v = getattr(n, f.name)
        if isinstance(v, LZ.AwareASTNode):
            kw[f.name] = _rebuild(v)
        elif isinstance(v, tuple) and v and isinstance(v[0], LZ.AwareASTNode):
            kw[f.name] = tuple(_rebuild(c) for c in v)
        elif isinstance(v, list) and v and isinstance(v[0], LZ.AwareASTNode):
            kw[f.name] = [_rebuild(c) for c in v]
        else:
            kw[f.name] = v
    return type(n)(**kw)


# ------------------------------------------------------------------ invariant
def check_invariant(handles: list[Any]) -> tuple[str, dict[str, Any]] | None:
    """C18 on every attached node reachable from the handles (and every registered node)."""
    nodes = dict(reachable(handles))
    for n in list(LZ.AwareASTNode._nodes.values()):
        for k, v in reachable([n]).items():
            nodes.setdefault(k, v)
    attached = {k: n for k, n in nodes.items() if not n.detached}
    placed: dict[int, list[tuple[Any, str, int | None]]] = {}
    for k, n in attached.items():
        what = f"{type(n).__name__}<{n.id[:6]}>"
        if LZ.AwareASTNode.get_any(n.id) is not n or type(n).get(n.id) is not n:
            return "lookup-does-not-return-attached-node", {"node": what}
        for c, fname, idx in _kids(n):
            if c.detached:
                holder = LZ.AwareASTNode._nodes.get(c.id)
                anc = n
                shared = False
                while anc is not None:
                    if holder is anc:
                        shared = True
                        break
                    anc = anc.parent
                if shared:
                    # the child's id is held by its own parent / ancestor: the child was registered first
                    # and then silently evicted when the ancestor registered itself under the same id
                    return "descendant-shares-id-with-ancestor-and-is-evicted", {"node": what, "field": fname, "index": idx, "shared_id": c.id[:8]}
                return "attached-node-has-detached-child", {"node": what, "field": fname, "index": idx}
            if c.parent is not n:
                return "child-does-not-report-its-parent", {"node": what, "field": fname, "index": idx, "child_parent": None if c.parent is None else type(c.parent).__name__}
            if c.parent_field is None or c.parent_field.name != fname or c.parent_index != idx:
                return "child-reports-wrong-field-or-index", {"node": what, "field": fname, "index": idx, "reported": (None if c.parent_field is None else c.parent_field.name, c.parent_index)}
            placed.setdefault(id(c), []).append((n, fname, idx))
        p = n.parent
        if p is not None:
            if p.detached:
                return "attached-node-has-detached-parent", {"node": what}
            val = getattr(p, n.parent_field.name, None) if n.parent_field is not None else None  # (a reported parent whose class has no such field stores nothing there)
            stored = (val[n.parent_index] if isinstance(val, (tuple, list)) and n.parent_index is not None and n.parent_index < len(val) else val) if n.parent_field is not None else None
            if stored is not n:
                return "parent-does-not-store-node-at-reported-position", {"node": what, "field": None if n.parent_field is None else n.parent_field.name, "index": n.parent_index}
    for k, lst in placed.items():
        if len(lst) > 1:
            return "__two_positions__", {}
    # content ids, ancestors, depth, xpath per attached root
    for k, n in attached.items():
        if n.parent is not None:
            continue
        try:
            expected_cid(n)  # fills the cache for every sub-structure of n
        except Exception as ex:  # noqa: BLE001
            return "__rebuild_failed__", {"error": f"{type(ex).__name__}: {ex}"[:200]}
        ok_x = n.calculate_xpath()
        stack = [(n, [], f"/@root[0]{type(n).__name__}")]
        while stack:
            m, chain, xp = stack.pop()
            if m.content_id != expected_cid(m):
                return "content_id-stale", {"node": f"{type(m).__name__}<{m.id[:6]}>", "depth": len(chain)}
            got = list(m.ancestors())
            if len(got) != len(chain) or any(a is not b for a, b in zip(got, reversed(chain))):
                return "ancestors-disagree-with-structure", {"node": type(m).__name__}
            if m.get_depth() != len(chain):
                return "get_depth-disagrees-with-structure", {"node": type(m).__name__, "got": m.get_depth(), "expected": len(chain)}
            for a in chain:
                if not a.is_ancestor(m):
                    return "is_ancestor-disagrees-with-structure", {"node": type(m).__name__}
            if chain and m.is_ancestor(chain[0]):
                return "is_ancestor-disagrees-with-structure", {"node": type(m).__name__, "claims_to_be_ancestor_of": "root"}
            # relative depth to every real ancestor, and twins of ancestors (content-equal attached
            # nodes that are NOT on the chain) are no ancestors
            for d_, a in enumerate(reversed(chain), start=1):
                if m.get_depth(relative_to=a) != d_:
                    return "get_depth-disagrees-with-structure", {"node": type(m).__name__, "relative_to": type(a).__name__, "got": m.get_depth(relative_to=a), "expected": d_}
            if chain:
                cids = {a.content_id for a in chain}
                for t_ in attached.values():
                    if t_.content_id in cids and all(t_ is not a for a in chain) and t_ is not m and t_.is_ancestor(m):
                        return "is_ancestor-disagrees-with-structure", {"node": type(m).__name__, "claimed_by": f"a content-equal twin of an ancestor ({type(t_).__name__})"}
            if ok_x is not True or m.xpath != xp:
                return "calculated-xpath-disagrees-with-structure", {"node": type(m).__name__, "got": m.xpath, "expected": xp}
            for c, fname, idx in _kids(m):
                stack.append((c, chain + [m], f"{xp}/@{fname}[{idx if idx else 0}]{type(c).__name__}"))
    return None


# --------------------------------------------------------------------- frame
def snapshot(handles: list[Any]) -> dict[int, tuple]:
    out = {}
    for k, n in reachable(handles).items():
        vals = tuple((f.name, _ident(getattr(n, f.name))) for f in dataclasses.fields(n) if f.name not in ("content_id",))
        par = n.parent
        out[k] = (not n.detached, id(par) if par is not None else None, None if n.parent_field is None else n.parent_field.name, n.parent_index, vals, n.id, n.original_id, n.content_id)
    return out


def _ident(v: Any) -> Any:
    if isinstance(v, (tuple, list)):
        return (type(v).__name__, tuple(id(x) if isinstance(x, LZ.AwareASTNode) else x for x in v))
    if isinstance(v, LZ.AwareASTNode):
        return id(v)
    return v if isinstance(v, (str, int, float, bool, type(None))) else repr(v)


LABELS = ["attached", "parent", "parent_field", "parent_index", "field_values", "id", "original_id", "content_id"]


def diff_snapshots(a: dict[int, tuple], b: dict[int, tuple], nodes: dict[int, Any]) -> list[str]:
    changed: set[str] = set()
    for k in a:
        if k in b and a[k] != b[k]:
            for lab, x, y in zip(LABELS, a[k], b[k]):
                if x != y:
                    changed.add(lab)
    return sorted(changed)


# ----------------------------------------------------------------------- ops
def _visitors():
    from pyoak.legacy.node import ASTTransformer, ASTTransformVisitor

    class Inc(ASTTransformVisitor):
        def visit_LLeaf(self, node):
            return node.replace(v=node.v + 100)

    class RemoveEven(ASTTransformVisitor):
        def visit_LLeaf(self, node):
            return None if node.v % 2 == 0 else node

    class Raises(ASTTransformVisitor):
        def visit_LLeaf(self, node):
            raise RuntimeError("rule raises")

    class RaisesLate(ASTTransformVisitor):
        def visit_LLeaf(self, node):
            if node.v % 2 == 0:
                raise RuntimeError("rule raises")
            return node.replace(v=node.v + 100)

    class IncT(ASTTransformer):
        def transform(self, node):
            return node.replace(v=node.v + 100) if isinstance(node, LZ.LLeaf) else node

    class RemoveT(ASTTransformer):
        def transform(self, node):
            return None if isinstance(node, LZ.LLeaf) and node.v % 2 == 0 else node

    class FreshT(ASTTransformer):
        def transform(self, node):
            return LZ.LLeaf(v=node.v + 500, origin=node.origin) if isinstance(node, LZ.LLeaf) else node

    return Inc, RemoveEven, Raises, IncT, RemoveT, FreshT, RaisesLate


NULLARY = ["new-leaf-1", "new-leaf-9"]
UNARY = [
    "wrap-tuple", "wrap-optional", "wrap-required", "wrap-list", "attach", "detach", "detach_self", "replace-property", "replace-noop", "replace-bad-key", "replace-forbidden-key",
    "replace_with-None", "duplicate", "duplicate-detached", "transform-inc", "transform-remove-even", "transform-raises", "transform-raises-late", "transform-reused-visitor-raises-late", "transformer-inc", "transformer-remove", "transformer-fresh",
]
BINARY = ["wrap-pair", "wrap-abstract-sequence", "replace_with", "replace-child", "transform-return-existing"]
ALL_OPS = NULLARY + UNARY + BINARY  # the guided-only operations (DETACHED_WRAPS) are unary as well


def apply_op(op: str, r: Any, a: Any) -> Any:
    from pyoak.origin import NO_ORIGIN

    Inc, RemoveEven, Raises, IncT, RemoveT, FreshT, RaisesLate = _visitors()
    o = NO_ORIGIN
    if op == "new-leaf-1":
        return LZ.LLeaf(v=1, origin=o)
    if op == "new-leaf-9":
        return LZ.LLeaf(v=9, origin=o)
    if op == "wrap-tuple":
        return LZ.LTup(items=(r,), origin=o)
    if op == "wrap-optional":
        return LZ.LOpt(one=r, origin=o)
    if op == "wrap-required":
        return LZ.LReq(child=r, origin=o)
    if op == "wrap-list":
        return LZ.LList(elems=[r], origin=o)
    if op == "wrap-detached-tuple":
        return LZ.LTup(items=(r,), origin=o, create_detached=True)
    if op == "wrap-detached-required":
        return LZ.LReq(child=r, origin=o, create_detached=True)
    if op == "wrap-pair":
        return LZ.LTup(items=(r, a), origin=o)
    if op == "wrap-abstract-sequence":
        return LZ.LAbs(head=r, extras=(a,), origin=o)
    if op == "attach":
        return r.attach()
    if op == "detach":
        return r.detach()
    if op == "detach_self":
        return r.detach_self()
    if op == "replace-property":
        if isinstance(r, (LZ.LLeaf, LZ.LMix)):
            return r.replace(v=r.v + 10)
        if isinstance(r, LZ.LTup):
            return r.replace(items=())
        if isinstance(r, LZ.LList):
            return r.replace(elems=[])
        if isinstance(r, LZ.LOpt):
            return r.replace(one=None)
        return r.replace(origin=o)
    if op == "replace-noop":
        return r.replace(origin=r.origin)
    if op == "replace-bad-key":
        return r.replace(no_such_field=1)
    if op == "replace-forbidden-key":
        return r.replace(id="forced")
    if op == "replace-child":
        if isinstance(r, LZ.LTup):
            return r.replace(items=(*r.items, a))
        if isinstance(r, LZ.LList):
            return r.replace(elems=[a, *r.elems])
        if isinstance(r, LZ.LOpt):
            return r.replace(one=a)
        if isinstance(r, LZ.LReq):
            return r.replace(child=a)
        if isinstance(r, LZ.LMix):
            return r.replace(items=(a,), one=None)
        return r.replace(v=r.v)
    if op == "replace_with":
        return r.replace_with(a)
    if op == "replace_with-None":
        return r.replace_with(None)
    if op == "duplicate":
        return r.duplicate()
    if op == "duplicate-detached":
        return r.duplicate(as_detached_clone=True)
    if op == "transform-inc":
        return Inc().transform(r)
    if op == "transform-remove-even":
        return RemoveEven().transform(r)
    if op == "transform-raises":
        return Raises().transform(r)
    if op == "transform-raises-late":
        return RaisesLate().transform(r)
    if op == "transform-reused-visitor-raises-late":
        # one visitor object, used a second time after a transformation of some other (attached) tree was rejected
        vis = RaisesLate()
        other = LZ.LTup(items=(LZ.LLeaf(v=771, origin=o), LZ.LLeaf(v=772, origin=o)), origin=o)
        try:
            vis.transform(other)
        except Exception:  # noqa: BLE001
            pass
        for n_ in (other, *other.items):
            n_.detach_self()
        return vis.transform(r)
    if op == "transform-return-existing":
        from pyoak.legacy.node import ASTTransformVisitor

        class ReturnExisting(ASTTransformVisitor):
            def visit_LLeaf(self, node):
                return a

        return ReturnExisting().transform(r)
    if op == "transformer-inc":
        return IncT().execute(r)
    if op == "transformer-remove":
        return RemoveT().execute(r)
    if op == "transformer-fresh":
        return FreshT().execute(r)
    raise ValueError(op)


def _rejection_site(ex: BaseException) -> str:
    """For the two wrapper errors, where the rejection arose: in replace_with's pre-checks (clean on
    the pinned tree) or while attaching the replacement (the rollback path)."""
    if type(ex).__name__ not in ("ASTNodeReplaceWithError", "ASTTransformError"):
        return ""
    cur: BaseException | None = ex
    while cur is not None:
        msg = str(cur)
        if "Failed to attach the new node" in msg:
            return "[attach-failed]"
        if "expects" in msg or "has a parent already" in msg:
            return "[pre-check]"
        if cur is not ex and type(cur).__name__ in ("ASTNodeRegistryCollisionError", "ASTNodeParentCollisionError", "ASTNodeDuplicateChildrenError", "ASTNodeIDCollisionError"):
            return "[construction-collision]"
        if type(cur).__name__ == "RuntimeError" and "rule raises" in msg:
            return "[rule-raised]"
        cur = cur.__cause__ or cur.__context__
    return "[other]"


def describe_node(n: Any, handles: list[Any]) -> str:
    for i, h in enumerate(handles):
        if h is n:
            return f"h{i}"
    return "?"


STALE_LATER = ["attach", "detach", "replace_with-None", "replace-property"]
STALE_LATER_QUICK = ["attach", "detach", "replace_with-None"]
DETACHED_LATER = ["replace-property", "wrap-tuple", "wrap-required", "attach", "replace_with-None"]


# C19, guided: a detached node whose cached digest is out of date (built detached around an attached
# child, or detached on its own, and then changed below), followed by operations that are rejected
DETACHED_WRAPS = ["wrap-detached-tuple", "wrap-detached-required"]
REJECT_LATER = ["replace-property", "attach", "duplicate", "replace_with-None"]


# C19, guided: a detached clone carrying the id of its original, then constructions over both
CLONE_LATER = ["detach", "wrap-pair", "replace-child", "attach", "replace_with"]
CLONE_LATER_QUICK = ["detach", "wrap-pair", "replace-child"]


THIRD_OPS = ["attach", "detach", "detach_self", "replace_with-None", "replace-property", "replace-noop", "duplicate", "transform-remove-even", "transformer-inc"]


def make_harness(K: int, which: str, first_ops: list[str] | None = None, later_ops: list[str] | None = None, forest: int | None = None, first_recv: int | None = None, last_ops: list[str] | None = None, n_forests: int | None = None):
    """which: "C18" (fail on invariant violations) or "C19" (fail on frame violations)."""

    def harness(e):
        from models.zoo import node_at

        LZ.lreset()
        fno = forest if forest is not None else e.choice(n_forests or FALSY_FOREST, "forest")
        recipes, designated = FORESTS[fno]
        roots = [LZ.lbuild(r) for r in recipes]
        handles: list[Any] = []
        for root, paths in zip(roots, designated):
            for p in paths:
                handles.append(node_at(root, p))
        history: list[str] = []
        scenario: dict[str, Any] = {"forest": [LZ.ldescribe(r) for r in recipes], "handles": "h0.. = designated nodes of the forest in pre-order, then results", "history": history}
        for step in range(K):
            allowed = first_ops if (step == 0 and first_ops) else (later_ops or ALL_OPS)
            if last_ops and step == K - 1 and step >= 2:
                allowed = last_ops
            op = e.pick(allowed, f"op{step}")
            r = a = None
            if op not in NULLARY:
                if step == 0 and first_recv is not None:
                    if first_recv >= len(handles):
                        e.assume(False)
                    r = handles[first_recv]
                else:
                    r = handles[e.choice(len(handles), f"recv{step}")]
            if op in BINARY:
                a = handles[e.choice(len(handles), f"arg{step}")]
                if a is r:
                    e.assume(False)
            # ... and so are histories that would build a cycle through a stale twin: an argument that
            # contains a node carrying the id of the receiver, of one of its descendants or ancestors
            if op == "transform-return-existing" and _id_overlap(a, r):
                e.assume(False)
            # histories that would put one object at two positions are outside the statement:
            if op == "replace_with" and (contains(a, r) or contains(r, a)):
                # (C19 keeps one such call: the receiver's own parent, an attached root, offered as the
                # replacement -- it passes the up-front checks and is rejected by the attach step, so the
                # rejection must leave everything as it was)
                if not (which == "C19" and a is r.parent and a.parent is None):
                    e.assume(False)
            if op in ("wrap-pair", "wrap-abstract-sequence") and (contains(a, r) or contains(r, a)):
                e.assume(False)
            if op == "replace-child" and (contains(a, r) or contains(r, a)):
                e.assume(False)
            if op == "transform-return-existing":
                # the rule returns `a` for every leaf below r: with more than one leaf the history
                # itself would put one object at two positions
                if contains(a, r) or contains(r, a) or sum(1 for x in reachable([r]).values() if isinstance(x, LZ.LLeaf)) != 1:
                    e.assume(False)
            text = f"{op}({', '.join(describe_node(x, handles) for x in (r, a) if x is not None)})"
            # for the signature: a transform behaves differently on a detached receiver (no clone is made)
            op_sig = op + (("@detached-receiver" if r.detached else "@attached-receiver") if op.startswith("transform") and r is not None else "")
            e.note(f"forest{fno}: {' ; '.join(history)} ; then {text}")
            before = snapshot(handles + roots)
            known = reachable(handles + roots)
            reg_before = {k: id(v) for k, v in LZ.AwareASTNode._nodes.items()}
            try:
                result = apply_op(op, r, a)
                outcome = "ok"
            except Exception as ex:  # noqa: BLE001
                import traceback as _tb

                if not any("/pyoak/" in f_.filename for f_ in _tb.extract_tb(ex.__traceback__)):
                    if isinstance(ex, AttributeError):
                        e.assume(False)  # the operation reads a field this receiver's class does not have: not applicable
                    raise  # raised by this harness alone (no frame of the library): a harness error, not a rejected operation
                result = None
                outcome = type(ex).__name__
                rejection_site = _rejection_site(ex)
            history.append(f"{text} -> {outcome}")
            if outcome == "ok":
                res = check_invariant(handles + roots + ([result] if isinstance(result, LZ.AwareASTNode) else []))
                if res is not None:
                    sig, detail = res
                    if sig == "__two_positions__":
                        e.assume(False)
                    if sig == "__rebuild_failed__":
                        e.count("rebuild_failed")
                        e.assume(False)
                    if which == "C18":
                        scenario.update(detail)
                        e.fail(f"{sig}:after-{op}", scenario=scenario)
                    e.assume(False)  # C19 does not continue from an inconsistent state
                if isinstance(result, LZ.AwareASTNode) and len(handles) < MAX_HANDLES and all(result is not h for h in handles):
                    handles.append(result)
            elif outcome in DOCUMENTED:
                after = snapshot(handles + roots)
                changed = diff_snapshots(before, after, known)
                reg_after = {k: id(v) for k, v in LZ.AwareASTNode._nodes.items()}
                new_registered = sorted(k for k in reg_after if k not in reg_before)
                if which == "C19" and (changed or new_registered or any(reg_after.get(k) != v for k, v in reg_before.items())):
                    scenario.update(changed_observables=changed, newly_registered_ids=len(new_registered), registry_changed=any(reg_after.get(k) != v for k, v in reg_before.items()))
                    what = "+".join(changed) or "registry"
                    e.fail(f"rejected-{op_sig}:{outcome}{rejection_site}:changed:{what}", scenario=scenario)
                if changed or new_registered:
                    e.assume(False)  # state already inconsistent by a (C19) rollback gap: stop here
                e.count("rejected_operations")
            else:
                # an undocumented exception: neither a successful operation (C18) nor a documented rejection (C19)
                e.count(f"undocumented:{outcome}")
                e.assume(False)
        e.distinct((fno, tuple(history)))
        return {"forest": fno, "history": list(history)}

    return harness


FORESTS = forests()
