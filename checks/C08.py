"""C08 -- pattern matching follows the documented semantics; captures are exact objects.

Engine X: matcher kernels (sequence length / tail rules, value / variable equality,
regex anchoring) on symbolic sequences, ints and strings.
Engine P: patterns derived from the grammar by selectors, compiled by the real
NodeMatcher.from_pattern / MultiPatternMatcher under three cache states, matched
against zoo nodes and compared with the reference matcher (captures by identity).
"""
from __future__ import annotations

from typing import Any

from models.zoo import CLASSES, R, build, describe, reset_all
from oracles import pattern_ref as PR
from vcheck.core import Family, Spec

ID = "C08"
FUNCTIONS = [
    "pyoak.match.pattern:BaseMatcher.match", "pyoak.match.pattern:AnyMatcher.__new__", "pyoak.match.pattern:ValueMatcher._match",
    "pyoak.match.pattern:RegexMatcher._match", "pyoak.match.pattern:VarMatcher._match", "pyoak.match.pattern:SequenceMatcher.__post_init__",
    "pyoak.match.pattern:SequenceMatcher._match", "pyoak.match.pattern:NodeMatcher._match", "pyoak.match.pattern:NodeMatcher.from_pattern",
    "pyoak.match.pattern:PatternDefInterpreter.tree", "pyoak.match.pattern:PatternDefInterpreter.field_spec", "pyoak.match.pattern:PatternDefInterpreter.sequence",
    "pyoak.match.pattern:PatternDefInterpreter.value", "pyoak.match.pattern:MultiPatternMatcher.__init__", "pyoak.match.pattern:MultiPatternMatcher.match",
]

T = lambda cls, *fs: ("tree", cls, list(fs))  # noqa: E731
LEAF1 = T(["VLeaf"], ("v", ("val", ("re", "1$")), None))
LEAFCAP = T(["VLeaf"], ("v", None, "x"))
TREE_VALUES = [T(["VLeaf"]), T("*"), T(["VBase"]), T(["VLeaf", "VStr2"]), T(["VSubLeaf"]), T(["VSubLeaf", "VLeaf"]), T(["VSubLeaf", "VStr2", "VBase"]), LEAF1, LEAFCAP, T(["VMany"], ("items", ("seq", [], ("*", None)), None))]
VALUES = [("none",), ("re", "1"), ("re", ".*2$"), ("re", "VLeaf")] + TREE_VALUES
SEQ_ELEMS = [T(["VLeaf"]), T("*"), LEAF1, ("none",)]


def seq_specs() -> list[tuple]:
    out = []
    tails = [None, ("*", None), ("*", "t")]
    for tail in tails:
        out.append(("seq", [], tail))
    for a in SEQ_ELEMS:
        for cap in (None, "a"):
            for tail in tails:
                out.append(("seq", [(a, cap)], tail))
    for a in SEQ_ELEMS:
        for b in SEQ_ELEMS:
            for cap in (None, "a"):
                for tail in tails:
                    out.append(("seq", [(a, cap), (b, None)], tail))
    for a in SEQ_ELEMS[:2]:
        for b in SEQ_ELEMS[:2]:
            for c in SEQ_ELEMS[:2]:
                for tail in tails:
                    out.append(("seq", [(a, None), (b, "b"), (c, None)], tail))
    return out


def single_field_patterns() -> list[tuple]:
    pats = []
    for cls in (["VMixed"], "*", ["VBase"], ["VMixed", "VLeaf"], ["VInh"], ["VInh", "VMixed"], ["VSubLeaf", "VLeaf", "VInh", "VBase"]):
        for s in seq_specs():
            for cap in (None, "c"):
                pats.append(T(cls, ("items", s, cap)))
        for fname in ("first", "one"):
            pats.append(T(cls, (fname, None, None)))
            pats.append(T(cls, (fname, None, "c")))
            for v in VALUES:
                for cap in (None, "c"):
                    pats.append(T(cls, (fname, ("val", v), cap)))
        for spec in (None, ("val", ("re", "1")), ("val", ("re", "^[0-9]+$")), ("val", ("none",))):
            for cap in (None, "c"):
                pats.append(T(cls, ("v", spec, cap)))
        pats.append(T(cls, ("nope", None, None)))
        pats.append(T(cls))
    return pats


def multi_field_patterns() -> list[tuple]:
    V = lambda n: ("val", ("var", n))  # noqa: E731
    pats = [
        T(["VMixed"], ("first", None, "a"), ("one", V("a"), None)),
        T(["VMixed"], ("first", None, "a"), ("one", V("a"), "b")),
        T(["VMixed"], ("first", ("val", LEAFCAP), None), ("one", ("val", T(["VLeaf"], ("v", V("x"), None))), None)),
        T(["VMixed"], ("items", ("seq", [(T(["VLeaf"]), "a"), (("var", "a"), None)], None), None)),
        T(["VMixed"], ("items", ("seq", [(T("*"), "a"), (("var", "a"), "b")], ("*", "t")), None)),
        T(["VMixed"], ("first", None, "a"), ("items", ("seq", [(("var", "a"), None)], ("*", None)), None)),
        T(["VMixed"], ("v", None, "n"), ("first", ("val", T(["VLeaf"], ("v", V("n"), None))), None)),
        T(["VMixed"], ("one", None, "a"), ("first", V("a"), None)),
        T(["VMixed"], ("one", None, "a"), ("one", V("a"), "b")),
        T(["VMixed"], ("one", ("val", ("none",)), "a"), ("one", V("a"), None)),
        T(["VMixed"], ("one", None, "a"), ("items", ("seq", [(("var", "a"), None)], ("*", None)), None)),
        T(["VMixed"], ("first", None, None), ("one", None, "o")),
        T(["VMixed"], ("first", None, "f"), ("one", None, None)),
        T(["VMixed"], ("first", None, "f"), ("one", None, "o"), ("items", None, "i")),
        T(["VMixed"], ("items", ("seq", [], ("*", "t")), None), ("one", None, "o")),
        T(["VMixed"], ("one", None, "o"), ("items", ("seq", [(T("*"), None)], ("*", None)), None)),
        T(["VMixed"], ("items", ("seq", [(T(["VMany"], ("items", ("seq", [(T(["VLeaf"]), "inner")], ("*", "rest")), None)), "outer")], ("*", None)), None)),
        T(["VMixed"], ("first", ("val", T(["VReq"], ("child", ("val", T(["VLeaf"], ("v", None, "deep"))), "mid"))), "top")),
        T(["VMixed"], ("first", ("val", T(["VReq"], ("child", ("val", T(["VLeaf"], ("v", None, "deep"))), None))), None), ("one", ("val", T(["VLeaf"], ("v", V("deep"), None))), None)),
        T("*", ("v", None, "n"), ("items", ("seq", [], None), None)),
        T(["VMixed"], ("first", ("val", ("re", "VLeaf")), "a"), ("one", ("val", ("none",)), "b")),
    ]
    return pats


def nodes() -> list[Any]:
    L = lambda v, o=None: R("VLeaf", {"v": v}, o)  # noqa: E731
    S = lambda v: R("VSubLeaf", {"v": v})  # noqa: E731
    M = lambda *xs: R("VMany", items=tuple(xs))  # noqa: E731
    out = []
    for items in [(), (L(1),), (L(1), L(1, "a")), (L(2), S(1)), (L(1), L(1, "b"), L(3)), (M(L(1), L(2)), L(1)), (R("VStr2", {"a": "1"}),), (L(1), L(2), L(3), L(4))]:
        for first, one in [(L(1), None), (L(1, "a"), L(1, "b")), (S(12), L(12)), (R("VReq", child=L(5)), L(5)), (L(7), L(8))]:
            out.append(R("VMixed", {"v": len(items) + 1}, first=first, items=items, one=one))
    out.append(R("VInh", {"v": 1}, first=L(1), items=(L(1),), one=None, extra=L(2)))
    out.append(L(1))
    out.append(M(L(1)))
    out.append(R("VStr2", {"a": "x"}))
    return out


NODES = nodes()
REJECTED = [
    "(VMixed @first=(VLeaf) -> a @one=$zz)", "(VMixed @first -> c @one -> c)", "(VMixed @items=[(VLeaf) -> b * -> t] @one=(NoSuchClass))",
    "(VMixed @first=(VLeaf @v -> x) -> f @one=(VLeaf @v=$nope) -> o @items -> i)", "(VMixed @v -> n @first -> deep @one -> mid @items=[$q] -> top)", "(VMixed @first -> h @one -> inner @items -> outer @v -> rest @nope=$undefined)",
]
INTERLEAVE = ["(VMixed @first -> zz)", "(* @one)", "(VMixed @items=[* -> qq])", "(VLeaf @v -> ww)"]


def _compare(e, text, desc, node, got_ok, got_caps, scenario):
    want_ok, want_caps = PR.match_tree(desc, node, {}, CLASSES)
    scenario.update(pattern=text, matched=got_ok, expected_match=want_ok, captures=sorted(got_caps), expected_captures=sorted(want_caps))
    anys = PR.uses_any_matcher(desc)

    def sig(base):
        if len(anys) > 1 and any(anys):
            return f"any-matcher-shared:{base}"
        if PR.has_captured_tail_seq(desc):
            return f"captured-sequence-loses-tail:{base}"
        if got_ok and not want_ok:
            return f"tail-length-off-by-one:{base}" if _has_tail(desc) else base
        return base

    if got_ok != want_ok:
        e.fail(sig("verdict-differs-from-reference"), scenario=scenario)
    if not got_ok:
        if got_caps != {}:
            e.fail("captures-not-empty-on-failure", scenario=scenario)
        return
    if set(got_caps) != set(want_caps):
        e.fail(sig("capture-names-differ"), scenario=scenario)
    for k, v in want_caps.items():
        g = got_caps[k]
        same = (g is v) or (isinstance(v, tuple) and isinstance(g, tuple) and len(g) == len(v) and all(a is b for a, b in zip(g, v)))
        if not same:
            scenario.update(capture=k)
            e.fail(sig("capture-is-not-the-matched-object"), scenario=scenario)


def _has_tail(desc) -> bool:
    for _f, spec, _c in desc[2]:
        if spec is not None and spec[0] == "seq":
            if spec[2] is not None:
                return True
            if any(v[0] == "tree" and _has_tail(v) for v, _ in spec[1]):
                return True
        if spec is not None and spec[0] == "val" and spec[1][0] == "tree" and _has_tail(spec[1]):
            return True
    return False


def make_harness(pats: list[tuple], node_filter=None):
    pool = NODES if node_filter is None else [n for n in NODES if node_filter(n)]

    def harness(e):
        import pyoak.match.pattern as P
        from pyoak.match.pattern import MultiPatternMatcher, NodeMatcher, validate_pattern

        reset_all()
        pno = e.choice(len(pats), "pattern")
        desc = pats[pno]
        text = PR.render(desc)
        nno = e.choice(len(pool), "node")
        node = build(pool[nno])
        cache = e.pick(["cold", "warm", "interleaved", "after-rejected-patterns"], "cache_state")
        scenario: dict[str, Any] = {"node": describe(pool[nno]), "cache_state": cache}
        if cache == "warm":
            NodeMatcher.from_pattern(text)
        if cache == "after-rejected-patterns":
            # the pattern compiles from a cold start; then definitions that are rejected after
            # they registered captures (same capture names as the generated patterns use) are
            # offered to all three entry points, and the cache is emptied again
            first, _ = NodeMatcher.from_pattern(text)
            P._MATCHER_CACHE.clear()
            for bad in REJECTED:
                NodeMatcher.from_pattern(bad)
                validate_pattern(bad)
                try:
                    MultiPatternMatcher([("bad", bad)])
                except Exception:  # noqa: BLE001
                    pass
            P._MATCHER_CACHE.clear()
            again, msg2 = NodeMatcher.from_pattern(text)
            if (first is None) != (again is None):
                scenario.update(pattern=text, compiled_cold=first is not None, compiled_after_rejections=again is not None, message=msg2)
                e.fail("compilation-depends-on-earlier-rejected-patterns", scenario=scenario)
        matcher, msg = NodeMatcher.from_pattern(text)
        if matcher is None:
            # a grammatical pattern that does not compile is C17's subject: counted, not judged
            e.count("did_not_compile")
            ok_v, _ = validate_pattern(text)
            if ok_v:
                scenario.update(pattern=text, message=msg)
                e.fail("from_pattern-rejects-what-validate_pattern-accepts", scenario=scenario)
            e.assume(False)
        if cache == "interleaved":
            for other in INTERLEAVE:
                m2, _ = NodeMatcher.from_pattern(other)
                if m2 is not None:
                    m2.match(node)
        try:
            ok, caps = matcher.match(node)
        except Exception as ex:  # noqa: BLE001
            scenario.update(pattern=text, raised=f"{type(ex).__name__}: {ex}"[:200])
            e.fail("match-raises", scenario=scenario)
        _compare(e, text, desc, node, ok, dict(caps), scenario)
        e.distinct((pno, nno, cache))
        if ok:
            e.count("matched")
        return {"pattern": text, "node": nno, "cache": cache, "matched": ok}

    return harness


# texts that are close to each other as strings but are different patterns (white space inside a
# quoted regex is part of the regex), and layouts of one pattern that differ only between tokens
SIMILAR_REGEXES = ["a b", "a  b", "a\tb", "a b$", " a", "a", "a +b"]
SIMILAR_VALUES = ["a b", "a  b", "a\tb", " a", "a", "a b c", "ab"]
LAYOUTS = ["plain", "spread", "newlines"]


def _layout(text: str, how: str) -> str:
    """Re-space a rendered pattern between tokens only (quoted regexes are left alone)."""
    if how == "plain":
        return text
    sep = "  " if how == "spread" else "\n\t"
    out, quoted = [], False
    for ch in text:
        if ch == '"':
            quoted = not quoted
        out.append(sep if (ch == " " and not quoted) else ch)
    return "".join(out)


def similar_harness(e):
    """Two textually similar patterns compiled one after the other in one process: the second
    answer must be that of the second pattern."""
    from pyoak.match.pattern import MultiPatternMatcher, NodeMatcher

    reset_all()
    i, j = e.choice(len(SIMILAR_REGEXES), "first_regex"), e.choice(len(SIMILAR_REGEXES), "second_regex")
    l1, l2 = e.pick(LAYOUTS, "first_layout"), e.pick(LAYOUTS, "second_layout")
    vno = e.choice(len(SIMILAR_VALUES), "value")
    node = build(R("VStr2", {"a": SIMILAR_VALUES[vno], "b": "x"}))
    descs = [T(["VStr2"], ("a", ("val", ("re", SIMILAR_REGEXES[k])), "c"), ("b", None, None)) for k in (i, j)]
    texts = [_layout(PR.render(descs[0]), l1), _layout(PR.render(descs[1]), l2)]
    via = e.pick(["from_pattern", "MultiPatternMatcher"], "entry")
    scenario: dict[str, Any] = {"first_pattern": texts[0], "second_pattern": texts[1], "value": SIMILAR_VALUES[vno], "entry": via}
    if via == "from_pattern":
        for desc, text in zip(descs, texts):
            matcher, msg = NodeMatcher.from_pattern(text)
            if matcher is None:
                scenario.update(pattern=text, message=msg)
                e.fail("well-formed-pattern-does-not-compile", scenario=scenario)
            ok, caps = matcher.match(node)
            _compare(e, text, desc, node, ok, dict(caps), dict(scenario, compiled="first" if desc is descs[0] else "second"))
    else:
        mm = MultiPatternMatcher([("first", texts[0]), ("second", texts[1])])
        got = mm.match(node)
        want = None
        for name, desc in zip(("first", "second"), descs):
            ok, caps = PR.match_tree(desc, node, {}, CLASSES)
            if ok:
                want = (name, caps)
                break
        if (got is None) != (want is None) or (got is not None and (got[0] != want[0] or set(got[1]) != set(want[1]))):
            scenario.update(got=None if got is None else got[0], expected=None if want is None else want[0])
            e.fail("multi-matcher-confuses-similar-patterns", scenario=scenario)
    e.distinct((i, j, l1, l2, vno, via))
    return scenario


class _Tag(str):
    """A str subclass whose str() differs from its raw characters."""

    def __str__(self) -> str:
        return f"TAG<{str.__str__(self)}>"


class _StrColor(str, __import__("enum").Enum):
    RED = "red"
    BLUE = "blue"


class _IntLike(int):
    def __str__(self) -> str:
        return f"#{int(self)}"


def stringlike_harness(e):
    """A quoted regex matches at the start of str(value), whatever the type of the value: str
    subclasses and str-mixin enums render differently from their raw characters."""
    from pyoak.match.pattern import NodeMatcher

    reset_all()
    values = [("_Tag('red')", _Tag("red")), ("_StrColor.RED", _StrColor.RED), ("'red'", "red"), ("_IntLike(7)", _IntLike(7)), ("7", 7), ("None", None), ("('red',)", ("red",))]
    regexes = ["red", "TAG<", "_StrColor", "TAG<red>$", ".*RED", "#7", "7", "\\(", "None"]
    vno, rno = e.choice(len(values), "value"), e.choice(len(regexes), "regex")
    label, value = values[vno]
    node = build(R("VStr2", {"a": value, "b": "x"}))
    desc = T(["VStr2"], ("a", ("val", ("re", regexes[rno])), "c"))
    text = PR.render(desc)
    matcher, msg = NodeMatcher.from_pattern(text)
    scenario: dict[str, Any] = {"value": label, "str_of_value": str(value), "regex": regexes[rno]}
    if matcher is None:
        scenario.update(pattern=text, message=msg)
        e.fail("well-formed-pattern-does-not-compile", scenario=scenario)
    ok, caps = matcher.match(node)
    _compare(e, text, desc, node, ok, dict(caps), scenario)
    e.distinct((vno, rno))
    return scenario


class _NeverEqual:
    """An object whose == is not reflexive (like a float NaN or a decimal NaN)."""

    def __eq__(self, o):
        return False

    def __hash__(self):
        return 7

    def __str__(self):
        return "never"


def nonreflexive_harness(e):
    """`$name` means == with the captured value (content equality for nodes): when the very same
    object sits at both places and is not == to itself (NaN), the variable does not match."""
    import math

    from pyoak.match.pattern import NodeMatcher

    reset_all()
    values = [("math.nan", math.nan), ("float('nan') twice", None), ("object with a non-reflexive ==", _NeverEqual()), ("1.5", 1.5), ("'x'", "x"), ("None", None)]
    vno = e.choice(len(values), "value")
    label, value = values[vno]
    if label == "float('nan') twice":
        a_val, b_val = float("nan"), float("nan")
    else:
        a_val = b_val = value
    where = e.pick(["two-fields", "two-sequence-elements", "two-tuple-fields-of-nodes", "tail-capture-then-tuple-field"], "where")
    if where in ("two-tuple-fields-of-nodes", "tail-capture-then-tuple-field"):
        # a captured TUPLE is no node: `$name` means == (which, for the nodes inside, includes origins)
        from models.zoo import VLeaf, VTwoSeq, origin

        okind = ["same-origins", "origins-differ", "content-differs"][vno % 3]
        lo, ro = origin("a"), origin("a" if okind == "same-origins" else "b")
        left = (VLeaf(v=1, origin=lo), VLeaf(v=2))
        right = (VLeaf(v=1 if okind != "content-differs" else 3, origin=ro), VLeaf(v=2))
        node = VTwoSeq(left=left, right=right)
        if where == "two-tuple-fields-of-nodes":
            desc = T(["VTwoSeq"], ("left", None, "s"), ("right", ("val", ("var", "s")), None))
        else:
            desc = T(["VTwoSeq"], ("left", ("seq", [], ("*", "rest")), None), ("right", ("val", ("var", "rest")), None))
        label = okind
    elif where == "two-fields":
        node = build(R("VStr2", {"a": a_val, "b": b_val}))
        desc = T(["VStr2"], ("a", None, "v"), ("b", ("val", ("var", "v")), None))
    else:
        node = build(R("VRich", {"t": (a_val, b_val)}))
        desc = T(["VRich"], ("t", ("seq", [(("re", ".*"), "first"), (("var", "first"), None)], None), None))
    text = PR.render(desc)
    matcher, msg = NodeMatcher.from_pattern(text)
    scenario: dict[str, Any] = {"value": label, "pattern": text, "where": where}
    if matcher is None:
        scenario.update(message=msg)
        e.fail("well-formed-pattern-does-not-compile", scenario=scenario)
    ok, caps = matcher.match(node)
    _compare(e, text, desc, node, ok, dict(caps), scenario)
    e.distinct((vno, where))
    return scenario


def empty_bracket_harness(e):
    """`[]` matches only the empty TUPLE: not "", not b"", not an empty list / frozenset / range,
    not None, not 0 -- as a field spec, captured, and as the first rule of a MultiPatternMatcher."""
    from pyoak.match.pattern import MultiPatternMatcher, NodeMatcher

    reset_all()
    values = [("()", ()), ("''", ""), ("b''", b""), ("[]", []), ("frozenset()", frozenset()), ("range(0)", range(0)), ("None", None), ("0", 0), ("('x',)", ("x",)), ("'x'", "x")]
    vno = e.choice(len(values), "value")
    label, value = values[vno]
    node = build(R("VStr2", {"a": value, "b": "x"}))
    captured = e.flag("captured")
    desc = T(["VStr2"], ("a", ("seq", [], None), "c" if captured else None))
    text = PR.render(desc)
    scenario: dict[str, Any] = {"value": label, "pattern": text}
    via = e.pick(["NodeMatcher", "MultiPatternMatcher"], "through")
    if via == "NodeMatcher":
        matcher, msg = NodeMatcher.from_pattern(text)
        if matcher is None:
            scenario.update(message=msg)
            e.fail("well-formed-pattern-does-not-compile", scenario=scenario)
        ok, caps = matcher.match(node)
        _compare(e, text, desc, node, ok, dict(caps), scenario)
    else:
        got = MultiPatternMatcher([("empty", text), ("fallback", "(VStr2)")]).match(node)
        want = "empty" if (isinstance(value, tuple) and len(value) == 0) else "fallback"
        if got is None or got[0] != want:
            scenario.update(got=None if got is None else got[0], expected=want)
            e.fail("multi-pattern-wrong-rule", scenario=scenario)
    e.distinct((vno, bool(captured), via))
    return scenario


RULES = [
    ("leafcap", T(["VLeaf"], ("v", None, "x"))), ("mixed_first", T(["VMixed"], ("first", None, "f"))), ("anynode", T("*")),
    ("mixed_tail", T(["VMixed"], ("items", ("seq", [(T(["VLeaf"]), "h")], ("*", "t")), None))), ("many", T(["VMany"], ("items", None, None))),
    ("never", T(["VMixed"], ("nope", None, None))),
]


def multi_harness(e, first_rule: int | None = None):
    from pyoak.match.pattern import MultiPatternMatcher

    reset_all()
    # an ordered selection of 2-3 distinct rules, and optionally an explicit `rules` order at match time
    i = first_rule if first_rule is not None else e.choice(len(RULES), "rule0")
    j = e.choice(len(RULES), "rule1")
    k = e.choice(len(RULES) + 1, "rule2")
    idx = [i, j] + ([k] if k < len(RULES) else [])
    if len(set(idx)) != len(idx):
        e.assume(False)
    defs = [(RULES[n][0], PR.render(RULES[n][1])) for n in idx]
    nno = e.choice(len(NODES), "node")
    node = build(NODES[nno])
    explicit = e.pick(["none", "reversed", "first_only"], "rules_arg")
    mpm = MultiPatternMatcher(defs)
    order = list(idx)
    arg = None
    if explicit == "reversed":
        order = list(reversed(idx))
        arg = [RULES[n][0] for n in order]
    elif explicit == "first_only":
        order = idx[:1]
        arg = [RULES[n][0] for n in order]
    # `rules` is documented as an Iterable of names: a list, a tuple, a one-shot iterator or a
    # generator must all mean the same order
    kind = e.pick(["list", "tuple", "iterator", "generator", "dict-keys"], "rules_arg_type") if arg is not None else "none"
    passed = arg
    if kind == "tuple":
        passed = tuple(arg)
    elif kind == "iterator":
        passed = iter(list(arg))
    elif kind == "generator":
        passed = (x for x in list(arg))
    elif kind == "dict-keys":
        passed = {x: None for x in arg}.keys()
    got = mpm.match(node, passed)
    want = None
    for n in order:
        ok, caps = PR.match_tree(RULES[n][1], node, {}, CLASSES)
        if ok:
            want = (RULES[n][0], caps)
            break
    scenario = {"rules": defs, "rules_arg": arg, "rules_arg_type": kind, "node": describe(NODES[nno]), "got": None if got is None else (got[0], sorted(got[1])), "expected": None if want is None else (want[0], sorted(want[1]))}
    shared = sum(len(PR.uses_any_matcher(RULES[n][1])) for n in idx) > 1 and any(any(PR.uses_any_matcher(RULES[n][1])) for n in idx)
    pre = "any-matcher-shared:" if shared else ""
    if (got is None) != (want is None) or (got is not None and got[0] != want[0]):
        e.fail(pre + "multi-pattern-wrong-rule", scenario=scenario)
    if got is not None:
        if set(got[1]) != set(want[1]) or any(not (got[1][c] is v or (isinstance(v, tuple) and tuple(got[1][c]) == v)) for c, v in want[1].items()):
            e.fail(pre + "multi-pattern-wrong-captures", scenario=scenario)
    e.distinct((tuple(idx), nno, explicit, kind))
    return scenario


def _x_runner(tier: str, seed: int, workers: int):
    from xh import c08_x
    from xh.runner import run_obligations

    return run_obligations("xh.c08_x", c08_x.QUICK, 120 if tier == "quick" else 300, workers=workers, signatures=c08_x.SIGNATURES)


def replay_obligation(payload):
    from xh.runner import replay_call

    return replay_call(payload)


def spec(tier: str, seed: int) -> Spec:
    single = single_field_patterns()
    if tier == "quick":
        single = single[::2] + single[1::14]
    multi = multi_field_patterns()
    chunk = max(1, len(single) // 40)
    var = "selectors: pattern derivation, node, cache state"
    fams = [Family(f"single[{k}:{k + chunk}]", make_harness(single[k : k + chunk]), variables=var) for k in range(0, len(single), chunk)]
    fams.append(Family("multi-field", make_harness(multi), variables=var))
    fams.append(Family("values-with-a-non-reflexive-equality", nonreflexive_harness, variables="selectors: value (NaN as one object / two objects, an object never equal to itself, ordinary values), place of capture and use"))
    fams.append(Family("empty-bracket-values", empty_bracket_harness, variables="selectors: value (empty tuple, other empty sequences, None, 0, non-empty), captured or not, entry point"))
    fams.append(Family("string-like-values", stringlike_harness, variables="selectors: value (str subclass, str-mixin enum, int subclass, plain), regex"))
    fams.append(Family("similar-pattern-texts", similar_harness, variables="selectors: two regexes that differ in white space, two token layouts, value, entry point"))
    for r0 in range(len(RULES)):
        fams.append(Family(f"multi-pattern-matcher-first-rule{r0}", (lambda e, _r=r0: multi_harness(e, _r)), variables="selectors: ordered rule selection, rules argument and its iterable type, node"))
    return Spec(
        families=fams,
        obligation_runners=[_x_runner],
        functions=FUNCTIONS,
        bounds={"patterns": len(single) + len(multi), "nodes": len(NODES), "cache_states": 4, "nesting_depth": 3, "sequence_lengths": "0-3 with and without tail, tuples 0-4 long", "X": "symbolic int sequences up to 5, strings up to 4"},
        rule="X: one obligation per matcher kernel with reachability twin; P: a case = (pattern, node, cache state) resp. (ordered rules, rules argument, node); non-trivial = pattern matched (counted); distinct by that tuple",
        variables="data: symbolic sequences / ints / strings (X); selectors: pattern, node, cache state, rule order (P)",
        assumptions=["strings are never offered to sequence specs (the statement is silent on str being a Sequence)", "a grammatical pattern that does not compile is counted, not judged (C17 is not applicable)"],
        outside=["regexes outside the pool of 6", "patterns nested deeper than 3", "sequence specs longer than 3"],
    )


def _plant_regex_search():
    import pyoak.match.pattern as P

    def _match(self, value, ctx):
        return (self.pattern.search(str(value)) is not None, {})

    P.RegexMatcher._match = _match


def _plant_var_identity():
    import pyoak.match.pattern as P

    def _match(self, value, ctx):
        return (ctx[self.var_name] is value or (not isinstance(value, P.ASTNode) and ctx[self.var_name] == value), {})

    P.VarMatcher._match = _match


def _plant_seq_no_len():
    import pyoak.match.pattern as P

    orig = P.SequenceMatcher._match

    def _match(self, value, ctx):
        if isinstance(value, tuple) and self.tail_matcher is None and len(value) > len(self.matchers):
            value = value[: len(self.matchers)]
        return orig(self, value, ctx)

    P.SequenceMatcher._match = _match


PLANTED = {"pat_regex_search": _plant_regex_search, "pat_var_identity": _plant_var_identity, "pat_seq_no_len": _plant_seq_no_len}
