"""C10 -- no operation ever modifies an existing node.

Engine P as a frame monitor: histories of public operations (operation and target
node are selectors); before each operation every existing node is snapshotted
(each dataclass field through object.__getattribute__, children by identity, id,
content_id, hash) and compared afterwards.  Separately: setattr / delattr raise.
"""
from __future__ import annotations

import dataclasses
from typing import Any

from models.zoo import CLASSES, R, VLeaf, build, describe, node_at, origin, positions_of, reset_all
from vcheck.core import Family, Spec

ID = "C10"
FUNCTIONS = [
    "pyoak.node:ASTNode.dfs", "pyoak.node:ASTNode.bfs", "pyoak.node:ASTNode.gather", "pyoak.node:ASTNode.duplicate", "pyoak.node:ASTNode.replace", "pyoak.node:ASTNode.detach",
    "pyoak.node:ASTNode.detach_self", "pyoak.node:ASTNode._deserialize", "pyoak.node:ASTNode.__post_init__", "pyoak.node:ASTNode._rich", "pyoak.node:_eq_fn", "pyoak.tree:Tree.__init__",
    "pyoak.match.xpath:ASTXpath.findall", "pyoak.match.xpath:ASTXpath.match", "pyoak.match.pattern:NodeMatcher._match", "pyoak.visitor:ASTTransformVisitor.generic_visit",
    "pyoak.serialize:DataClassSerializeMixin.as_dict", "pyoak.serialize:DataClassSerializeMixin.as_obj",
    "pyoak.origin:merge_origins", "pyoak.origin:concat_origins", "pyoak.origin:CodeOrigin.__add__", "pyoak.origin:Origin.__add__",
]


def trees():
    L = lambda v, o=None: R("VLeaf", {"v": v}, o)  # noqa: E731
    return [
        R("VMixed", {"v": 1}, "a", first=L(2), items=(L(3, "b"), R("VMany", items=(L(4),))), one=None),
        R("VReq", {}, "multi", child=R("VOne", one=L(5, "xml"))),
        R("VMany", items=(L(6), L(6), R("VNonCmp", {"v": 1, "note": "n"}), R("VRich", {"i": 1, "s": "x", "fs": frozenset([1])}, "gen"))),
        R("VInh", {"v": 2}, first=R("VPair", pair=(L(7), L(8))), items=(), one=L(9), extra=R("VAbAc", ab=L(10), ac=None)),
        L(11, "c"),
        R("VValidated", {"v": 1, "note": "ok"}, "a", kid=R("VValidated", {"v": 2}, kid=L(12))),
        R("VMany", {}, "b", items=(R("VReq", {}, "a", child=L(13)), R("VOne", {}, "xml", one=L(14)), L(15, "c"))),
        # properties that are no constructor arguments (a per-instance stamp, a constant, a counter, a computed value)
        R("VMany", {}, "a", items=(R("VStamp", {"v": 1}, None, kid=L(16)), R("VNonInit", {"v": 2}), R("VSerial", {"name": "t"}, "b"))),
        # a child that its class derives itself (a field that is no constructor argument)
        R("VMany", {}, "a", items=(R("VDerived", {"name": "foo"}), L(17))),
        # property values that serialization passes through by reference: containers inside an Any-typed property
        R("VReq", {}, "a", child=R("VTyped", {"a": {"k": (1, 2), "inner": {"t": (3, (4,))}, "l": [5, (6,)]}, "t": (7, 8)})),
    ]


TREES = trees()


def _ops():
    """name -> callable(root, node, ctx) performing one public operation."""
    import dataclasses as dc

    import pyoak.origin as O
    from pyoak.match.pattern import MultiPatternMatcher, NodeMatcher
    from pyoak.match.xpath import ASTXpath
    from pyoak.tree import Tree
    from pyoak.visitor import ASTTransformVisitor, ASTVisitor

    class Rewrite(ASTTransformVisitor):
        def visit_VLeaf(self, node):
            return dc.replace(node, v=node.v + 1)

    class Remove(ASTTransformVisitor):
        def visit_VLeaf(self, node):
            return None if node.v % 2 == 0 else node

    class Raises(ASTTransformVisitor):
        def visit_VLeaf(self, node):
            raise RuntimeError("boom")

    class Unwrap(ASTTransformVisitor):
        """Rules that return a node that existed before the call."""

        def visit_VReq(self, node):
            return node.child

        def visit_VOne(self, node):
            return _CTX["bystander"]

    def partial(raise_at: int):
        """Rewrites the first leaf it meets, keeps the following ones and raises at the raise_at-th:
        by then replacements (rebuilt parents that still hold untouched original children) exist."""

        class Partial(ASTTransformVisitor):
            def __init__(self):
                self.seen = 0

            def visit_VLeaf(self, node):
                self.seen += 1
                if self.seen == 1:
                    return dc.replace(node, v=node.v + 1)
                if self.seen >= raise_at:
                    raise RuntimeError("boom, late")
                return node

        return Partial

    class Collect(ASTVisitor[list]):
        def generic_visit(self, node):
            return [type(node).__name__] + [x for c in node.get_child_nodes() for x in self.visit(c)]

    def safe(fn):
        # (this check is about modification only: whether an operation may raise is the business of the
        # property that specifies the operation - C09, C14 ...)
        def run(*a):
            try:
                return fn(*a)
            except Exception:  # noqa: BLE001
                return None

        return run

    def tree_queries(root, node):
        t = Tree(root)
        return (t.get_parent(node), t.get_xpath(node), list(t.get_ancestors(node)), t.get_depth(node), t.is_in_tree(node), t.get_parent_info(node))

    ops = {
        "dfs": lambda r, n: list(n.dfs()), "dfs-bottom-up-pruned": lambda r, n: list(r.dfs(prune=lambda i: i.node is n, filter=lambda i: i.node is not n, bottom_up=True)),
        "bfs": lambda r, n: list(r.bfs()), "gather": lambda r, n: list(r.gather((VLeaf,), exact_type=True)), "children": lambda r, n: n.children,
        "accessors": lambda r, n: (list(n.get_properties(False, False, False)), list(n.iter_child_fields(sort_keys=True)), list(n.get_child_nodes_with_field()), n.to_properties_dict()),
        "tree-queries": tree_queries, "find": lambda r, n: r.find("//VLeaf"), "findall": lambda r, n: list(r.findall("//@items[0]")) if False else list(r.findall("//@items[0]VBase")),
        "xpath-match": lambda r, n: ASTXpath("//VLeaf").match(r, n), "pattern": lambda r, n: NodeMatcher.from_pattern("(* @v -> x)")[0].match(n),
        "multi-pattern": lambda r, n: MultiPatternMatcher([("a", "(VMixed @items=[* -> t])"), ("b", "(*)")]).match(n),
        "visit": lambda r, n: Collect().visit(r), "transform-rewrite": safe(lambda r, n: Rewrite().transform(r)), "transform-remove": safe(lambda r, n: Remove().transform(r)),
        "transform-raises": safe(lambda r, n: Raises().transform(r)),

        "transform-rewrites-one-leaf-then-raises-at-the-third": safe(lambda r, n: partial(3)().transform(r)),
        "transform-rewrites-one-leaf-then-raises-at-the-second": safe(lambda r, n: partial(2)().transform(r)),
        "transform-rewrites-one-leaf-then-raises-at-the-fourth": safe(lambda r, n: partial(4)().transform(r)), "transform-returns-existing-nodes": safe(lambda r, n: Unwrap().transform(r)), "duplicate": safe(lambda r, n: n.duplicate()),
        "replace": lambda r, n: n.replace(origin=n.origin), "replace-raises": safe(lambda r, n: n.replace(no_such=1)),
        "replace-raises-late-with-another-error-class": safe(lambda r, n: n.replace(origin=None)),
        "replace-rejected-by-subclass-validation": safe(lambda r, n: n.replace(note="bad")),
        "dataclasses.replace-rejected-by-subclass-validation": safe(lambda r, n: dc.replace(n, note="bad")),
        "dataclasses.replace": lambda r, n: dc.replace(n), "detach": lambda r, n: n.detach(), "detach_self": lambda r, n: n.detach_self(),
        "as_dict": lambda r, n: n.as_dict(), "to_json": lambda r, n: n.to_json(), "to_msgpck": lambda r, n: n.to_msgpck(), "to_yaml": lambda r, n: n.to_yaml(),
        "roundtrip-alive": lambda r, n: type(n).as_obj(n.as_dict()), "roundtrip-after-detach": lambda r, n: (n.detach(), type(n).from_json(n.to_json()))[1],
        "eq": lambda r, n: (r == n, n == n, n != r, n.is_equal(r)), "hash": lambda r, n: (hash(n), {n: 1}[n]), "rich": lambda r, n: (n.__rich__(), repr(n), str(n)),
        "to_tree": lambda r, n: r.to_tree(),
        # origin algebra on the origins carried by existing nodes (how a parser computes a parent's origin)
        "merge_origins": lambda r, n: O.merge_origins(n.origin, r.origin, _CTX["bystander_origin"]),
        "concat_origins": safe(lambda r, n: O.concat_origins(n.origin, _CTX["bystander_origin"], r.origin)),
        "origin-add": safe(lambda r, n: (n.origin + r.origin, n.origin + _CTX["bystander_origin"])),
        "origin-queries": safe(lambda r, n: (n.origin.fqn, n.origin.get_raw(), repr(n.origin), hash(n.origin), n.origin == r.origin)),
        "load-payload-with-a-gap-in-its-collision-suffixes": safe(_load_suffix_gap),
        "duplicate-the-loaded-tree": safe(lambda r, n: _CTX["loaded"].duplicate() if _CTX.get("loaded") is not None else None),
        "as_obj-payload-carrying-the-id-of-a-live-node": safe(_payload_with_foreign_id),
        "from_json-of-detached-twin-under-digest-size-1": safe(_collision_roundtrip),
        "as_obj-of-a-payload-of-the-live-node-with-edited-non-init-properties": safe(_edited_payload_of_live_node),
        "failed-load-after-detach_self:unknown-class-at-the-root": _failed_load("unknown-field-type-at-the-root"),
        "failed-load-after-detach_self:unknown-origin-class": _failed_load("missing-origin-of-the-root"),
        "failed-load-after-detach_self:unknown-class-of-the-last-nested-node": _failed_load("nested"),
    }
    return ops


_CTX: dict[str, Any] = {}


def _payload_with_foreign_id(r, n):
    """Deserialize a payload whose id is currently held by a live node of different content
    (a hand-edited id, or a digest collision)."""
    d = n.as_dict()
    n.detach()
    d["id"] = _CTX["bystander"].id
    return type(n).as_obj(d)


def _load_suffix_gap(r, n):
    """A payload written elsewhere whose equal leaves carry ids x, x_1, x_3 (no x_2)."""
    from models.zoo import VMany

    import copy

    # written without ever creating colliding nodes in this process (the payload comes from elsewhere)
    t = VMany(items=(VLeaf(v=777),))
    d = t.as_dict()
    base = d["items"][0]["id"]
    t.detach()
    del t
    items = []
    for suffix in ("", "_1", "_3"):
        leaf = copy.deepcopy(d["items"][0])
        leaf["id"] = base + suffix
        items.append(leaf)
    d["items"] = items
    d["id"] = "payload-root"
    _CTX["loaded"] = VMany.as_obj(d)
    return _CTX["loaded"]


def _edited_payload_of_live_node(r, n):
    """A payload of a node that is still alive, in which every non-constructor property was edited
    (written by another process, an older version of the tree ...): loading it returns the live node
    (its id is registered) and leaves it as it is."""
    import dataclasses as dc

    d = n.as_dict()
    for f in dc.fields(n):
        if f.init or f.name in ("id", "content_id") or f.name not in d:
            continue
        v = d[f.name]
        if isinstance(v, bool):
            d[f.name] = not v
        elif isinstance(v, int):
            d[f.name] = v + 1000
        elif isinstance(v, str):
            d[f.name] = v + "-edited"
    return type(n).as_obj(d)


def _collision_roundtrip(r, n):
    from pyoak import config

    old = config.ID_DIGEST_SIZE
    config.ID_DIGEST_SIZE = 1
    try:
        a = VLeaf(v=1, origin=n.origin)
        data = a.to_json()
        a.detach()
        keep = [VLeaf(v=k) for k in range(2, 40)]  # some of these take over a's one-byte id
        back = VLeaf.from_json(data)
        return [back, keep]
    finally:
        config.ID_DIGEST_SIZE = old


def _collect(obj: Any, into: dict[int, Any]) -> None:
    from pyoak.node import ASTNode

    if isinstance(obj, ASTNode):
        if id(obj) in into:
            return
        into[id(obj)] = obj
        for f in dataclasses.fields(obj):
            _collect(object.__getattribute__(obj, f.name), into)
    elif isinstance(obj, (tuple, list)):
        for x in obj:
            _collect(x, into)
    elif isinstance(obj, dict):
        for x in obj.values():
            _collect(x, into)
    elif hasattr(obj, "root") and type(obj).__name__ == "Tree":
        _collect(obj.root, into)


def _deep(v: Any, depth: int = 0) -> Any:
    """Structural rendering of a field value down to (but not into) nodes: a field value that is
    the same object but was changed inside (an origin's member list, a source's text) differs."""
    from pyoak.node import ASTNode

    if isinstance(v, ASTNode):
        return ("node", id(v))
    if isinstance(v, (str, int, float, bool, bytes, type(None))):
        return v
    if depth > 6:
        return repr(v)
    if isinstance(v, (tuple, list)):
        return (type(v).__name__, tuple(_deep(x, depth + 1) for x in v))
    if isinstance(v, (set, frozenset)):
        return (type(v).__name__, tuple(sorted(repr(x) for x in v)))
    if isinstance(v, dict):
        return ("dict", tuple((repr(k), _deep(x, depth + 1)) for k, x in v.items()))
    return repr(v)  # origins, sources, positions, enums, paths: their (generated) repr lists every field


def _registered(n: Any) -> bool:
    from pyoak.node import NODE_REGISTRY

    return NODE_REGISTRY.get(n.id) is n


# operations that are specified to take nodes out of the registry: the target alone ("self") or the
# target and its whole subtree ("subtree"); longest matching prefix wins
_UNREGISTERING = {
    "detach_self": "self", "detach": "subtree", "replace": "self", "roundtrip-after-detach": "subtree", "as_obj-payload-carrying": "subtree",
    # replace(no_such=1) and replace(origin=None) raise for every class, and a replace() that raises changes
    # nothing at all; the "rejected-by-subclass-validation" ones succeed on classes that do not validate
    "dataclasses.replace-rejected": "self", "replace-rejected": "self", "replace-raises": "none", "failed-load-after-detach_self": "self",
}


def _unregistering_scope(op: str) -> str | None:
    best = None
    for prefix, scope in _UNREGISTERING.items():
        if op.startswith(prefix) and (best is None or len(prefix) > len(best[0])):
            best = (prefix, scope)
    return best[1] if best else None


def _failed_load(corruption: str):
    """The payload of a node is loaded again after the node itself (not its children) has left the
    registry, and the load fails part-way: the children, alive and registered, were only re-used."""

    def run(r, n):
        d = n.as_dict()
        n.detach_self()
        if corruption == "unknown-field-type-at-the-root":
            d["__type"] = "NoSuchNodeClass"
        elif corruption == "missing-origin-of-the-root":
            d.pop("origin", None)
            d["origin"] = {"__type": "NoSuchOrigin"}
        else:
            # the last nested node mapping gets an unknown class
            def last(m):
                found = None
                for v in m.values():
                    for x in (v if isinstance(v, list) else [v]):
                        if isinstance(x, dict) and "content_id" in x:
                            found = x
                return found

            inner = last(d)
            if inner is None:
                d["__type"] = "NoSuchNodeClass"
            else:
                deeper = last(inner)
                (deeper or inner)["__type"] = "NoSuchNodeClass"
        try:
            return type(n).as_obj(d)
        except Exception:  # noqa: BLE001
            return None

    return run



def _snapshot(nodes: dict[int, Any]) -> dict[int, tuple]:
    out = {}
    for k, n in nodes.items():
        vals = []
        for f in dataclasses.fields(n):
            v = object.__getattribute__(n, f.name)
            vals.append((f.name, id(v), _deep(v)))
        vals.append(("<registered under its id>", 0, _registered(n)))
        out[k] = (tuple(vals), n.id, n.content_id, hash(n))
    return out


def make_harness(K: int, first_op: str | None, trees: list[int] | None = None):
    def harness(e):
        reset_all()
        ops = _ops()
        names = list(ops)
        # thorough: the third operation comes from the operations that create, unregister or re-create nodes
        THIRD = [n for n in names if n.startswith(("transform", "duplicate", "replace", "dataclasses", "detach", "roundtrip", "as_obj", "from_json", "load-payload", "failed-load", "eq", "rich", "tree-queries", "findall", "merge_origins", "concat_origins", "origin-add"))]
        tno = e.pick(trees, "tree") if trees else e.choice(len(TREES), "tree")
        root = build(TREES[tno])
        paths = positions_of(TREES[tno])
        existing: dict[int, Any] = {}
        _collect(root, existing)
        _CTX["loaded"] = None
        _CTX["bystander"] = VLeaf(v=424242)
        _CTX["bystander_origin"] = origin("c")
        _collect(_CTX["bystander"], existing)
        history: list[str] = []
        scenario: dict[str, Any] = {"tree": describe(TREES[tno]), "history": history}
        for step in range(K):
            pool = names if (K < 3 or step < 1) else THIRD
            op = first_op if (step == 0 and first_op) else e.pick(pool, f"op{step}")
            p = paths[e.choice(len(paths), f"target{step}")]
            node = node_at(root, p)
            before = _snapshot(existing)
            history.append(f"{op} on {p or '<root>'}")
            result = ops[op](root, node)
            after = _snapshot(existing)
            below_target: dict[int, Any] = {}
            _collect(node, below_target)
            for k in before:
                if before[k] != after[k]:
                    n = existing[k]
                    diff = [a[0] for a, b in zip(before[k][0], after[k][0]) if a != b] or ["id/content_id/hash"]
                    scope = _unregistering_scope(op)
                    if diff == ["<registered under its id>"] and before[k][0][-1][2] is True and ((scope == "subtree" and k in below_target) or (scope == "self" and existing[k] is node)):
                        continue  # the registry effect specified for detach / detach_self / replace
                    scenario.update(modified=type(n).__name__, fields=diff)
                    e.fail(f"existing-node-modified:{op}", scenario=scenario)
            _collect(result, existing)
        e.distinct((tno, tuple(history)))
        return {"tree": tno, "history": list(history)}

    return harness


def frozen_harness(e):
    reset_all()
    cname = e.pick(sorted(CLASSES), "class")
    cls = CLASSES[cname]
    kw = {"body": CLASSES["VColl"]()} if cname == "VHolder" else {"child": VLeaf(v=1)} if cname == "VReq" else ({"pair": (VLeaf(v=1), VLeaf(v=2))} if cname == "VPair" else ({"first": VLeaf(v=1)} if cname in ("VMixed", "VInh") else {}))
    node = cls(**kw)
    fields = [f.name for f in dataclasses.fields(node)]
    fname = e.pick(fields, "field")
    how = e.pick(["setattr", "delattr", "setattr-new-attribute"], "how")
    before = object.__getattribute__(node, fname)
    try:
        if how == "setattr":
            setattr(node, fname, before)
        elif how == "delattr":
            delattr(node, fname)
        else:
            setattr(node, "brand_new_attribute", 1)
        raised = False
    except Exception:  # noqa: BLE001
        raised = True
    if not raised or object.__getattribute__(node, fname) is not before:
        e.fail("field-assignment-or-deletion-does-not-raise", scenario={"class": cname, "field": fname, "how": how})
    e.distinct((cname, fname, how))
    return {"class": cname, "field": fname, "how": how}


def spec(tier: str, seed: int) -> Spec:
    K = 2 if tier == "quick" else 3
    names = list(_ops())
    fams = [Family(f"K2-first-{op}", make_harness(2, op), variables="selectors: tree, operation and target node per step") for op in names]
    if K == 3:
        # histories of 3 on three of the trees (multi-origin root, validated class, mixed fields);
        # the second and third operation come from the operations that create, unregister,
        # re-create or compare nodes
        fams += [Family(f"K3-first-{op}", make_harness(3, op, [0, 1, 5]), variables="selectors: tree, operation and target node per step") for op in names]
    fams.append(Family("frozen", frozen_harness, variables="selectors: class, field, setattr/delattr"))
    return Spec(
        families=fams,
        functions=FUNCTIONS,
        bounds={"history_length": "2 on all trees; 3 on trees 0, 1, 5 with the second and third operation from the node-creating / unregistering / comparing operations" if K == 3 else K, "operations": names, "trees": len(TREES), "classes_for_setattr": len(CLASSES)},
        rule="a case = (tree, K operations each with a target node); after every operation every pre-existing node (including nodes created by earlier operations) is compared with its snapshot; distinct by (tree, history)",
        variables="selectors only (bounded exploration of operation histories)",
        assumptions=["registry membership is part of the frame: an existing node may leave the registry only through detach / detach_self / replace on itself or on an ancestor (detach)"],
        outside=[f"histories longer than {K}", "operations with arguments other than the fixed ones listed", "object.__setattr__ (deliberate bypass)"],
    )


def _plant_transform_in_place():
    import pyoak.visitor as V

    orig = V.ASTTransformVisitor.generic_visit

    def generic_visit(self, node):
        changes = self._transform_children(node)
        if not changes:
            return node
        for k, v in changes.items():
            object.__setattr__(node, k, v)
        return node

    V.ASTTransformVisitor.generic_visit = generic_visit
    _ = orig


PLANTED = {"transform_in_place": _plant_transform_in_place}
