"""C13 -- runtime type checking accepts exactly the well-typed constructions.

Engine X: one CrossHair obligation per annotation with the value symbolic
(int / bool / float / str / None and tuples of them), is_instance == conforms.
Engine P: pool values that CrossHair cannot make symbolic (nodes, enums, lists,
paths, frozensets) and whole constructions mixing conforming and non-conforming
fields with the switch on and off.
"""
from __future__ import annotations

import os
from pathlib import Path
from typing import Any, Literal, Optional, Tuple, Union  # noqa: F401 (used by eval)

from models.zoo import Color, VBase, VLeaf, VMany, VStr2, VSubLeaf, VTyped, reset_all
from oracles.typing_conf import conforms
from vcheck.core import VERIF, Family, Spec

ID = "C13"
FUNCTIONS = ["pyoak.typing:is_instance", "pyoak.node:_check_runtime_types", "pyoak.node:ASTNode.__post_init__"]

FIELD_ANN: dict[str, Any] = {
    "i": int, "j": int, "f": float, "s": str, "b": bool, "oi": Optional[int], "t": Tuple[int, ...], "ft": Tuple[int, str],
    "lit": Literal["a", "b"], "u": Union[int, str], "a": Any, "e": Color, "kid": Optional[VLeaf], "kids": Tuple[VLeaf, ...], "nc": int,
}


class _Duck:
    """Not an Origin, but enough of one for id generation."""

    fqn = "duck"


def _field_ann() -> dict[str, Any]:
    # the inherited built-in field `origin` is a field like any other ("every field, init or not")
    from pyoak.origin import Origin

    return {**FIELD_ANN, "origin": Origin}


def _pool() -> list[tuple[str, Any]]:
    return [
        ("True", True), ("False", False), ("0", 0), ("1", 1), ("-1", -1), ("2**63", 2**63), ("1.5", 1.5), ("0.0", 0.0),
        ("'a'", "a"), ("''", ""), ("'c'", "c"), ("None", None), ("Color.RED", Color.RED), ("VLeaf()", VLeaf()),
        ("VSubLeaf()", VSubLeaf()), ("VStr2()", VStr2()), ("VMany()", VMany()), ("()", ()), ("(1,)", (1,)), ("(1,'a')", (1, "a")),
        ("(True,1)", (True, 1)), ("(1,2,3)", (1, 2, 3)), ("(None,)", (None,)), ("((1,),(2,3))", ((1,), (2, 3))), ("('a',1)", ("a", 1)),
        ("[1]", [1]), ("[]", []), ("(VLeaf(),)", (VLeaf(v=5),)), ("(VLeaf(),VStr2())", (VLeaf(v=6), VStr2())), ("frozenset({1})", frozenset({1})),
        ("frozenset({'a'})", frozenset({"a"})), ("Path('x')", Path("x")), ("(1.0,)", (1.0,)), ("(False,)", (False,)), ("(1,None)", (1, None)),
        ("(VSubLeaf(),)", (VSubLeaf(),)), ("Color.BLUE", Color.BLUE), ("(Color.RED,)", (Color.RED,)),
    ]


def _annotations() -> list[tuple[str, Any]]:
    from xh import c13_gen

    texts = c13_gen.SCALARS + c13_gen.TUPLES + c13_gen.DEEP
    out = [(t, eval(t)) for t in texts]  # noqa: S307
    out += [
        ("VLeaf", VLeaf), ("VBase", VBase), ("VLeaf | None", Optional[VLeaf]), ("tuple[VLeaf, ...]", Tuple[VLeaf, ...]),
        ("tuple[VLeaf, VBase]", Tuple[VLeaf, VBase]), ("VLeaf | VStr2 | None", Union[VLeaf, VStr2, None]), ("Color", Color),
        ("tuple[Color, ...]", Tuple[Color, ...]), ("frozenset[int]", frozenset[int]), ("Path", Path), ("Optional[Path]", Optional[Path]),
    ]
    return out


def pool_harness(e):
    from pyoak.typing import is_instance

    reset_all()
    anns = _annotations()
    pool = _pool()
    ai = e.choice(len(anns), "annotation")
    vi = e.choice(len(pool), "value")
    (atext, T), (vtext, v) = anns[ai], pool[vi]
    want = conforms(v, T)
    if want is None:
        e.assume(False)
    got = is_instance(v, T)
    scenario = {"annotation": atext, "value": vtext, "is_instance": got, "conforms": want}
    if got != want:
        if v is False or (isinstance(v, tuple) and _mentions_false(v)):
            e.fail("False-conforms-to-nothing", scenario=scenario)
        e.fail("is_instance-disagrees-with-conformance", scenario=scenario)
    e.distinct((ai, vi))
    return scenario


def _mentions_false(v) -> bool:
    return any(x is False or (isinstance(x, tuple) and _mentions_false(x)) for x in v)


def _candidates() -> dict[str, list[tuple[str, Any]]]:
    leaf = VLeaf(v=11)
    return {
        "i": [("1", 1), ("True", True), ("'x'", "x"), ("1.5", 1.5), ("None", None), ("1.0", 1.0), ("0", 0)],
        "j": [("1", 1), ("True", True), ("1.0", 1.0), ("False", False), ("0", 0), ("0.0", 0.0)],
        "f": [("1.5", 1.5), ("2", 2), ("'x'", "x")],
        "s": [("'x'", "x"), ("1", 1), ("None", None)],
        "b": [("True", True), ("False", False), ("1", 1), ("0", 0)],
        "oi": [("None", None), ("3", 3), ("'x'", "x"), ("False", False)],
        "t": [("()", ()), ("(1,2)", (1, 2)), ("(1,'x')", (1, "x")), ("[1]", [1]), ("(True,)", (True,)), ("[]", []), ("''", ""), ("None", None), ("0", 0), ("frozenset()", frozenset())],
        "ft": [("(1,'x')", (1, "x")), ("(1,)", (1,)), ("(1,'x',2)", (1, "x", 2)), ("('x',1)", ("x", 1)), ("()", ()), ("None", None), ("[]", [])],
        "lit": [("'b'", "b"), ("'c'", "c"), ("1", 1)],
        "u": [("'x'", "x"), ("2", 2), ("1.5", 1.5), ("None", None)],
        "a": [("object", 3.25), ("None", None)],
        "e": [("Color.BLUE", Color.BLUE), ("1", 1), ("'RED'", "RED")],
        "nc": [("5", 5), ("'x'", "x"), ("None", None), ("True", True)],
        "kid": [("None", None), ("VLeaf", leaf), ("VStr2", VStr2()), ("VSubLeaf", VSubLeaf(v=12)), ("1", 1)],
        "origin": [("NO_ORIGIN", __import__("pyoak.origin", fromlist=["NO_ORIGIN"]).NO_ORIGIN), ("'x'", "x"), ("None", None), ("duck-typed object with .fqn", _Duck())],
        "kids": [("()", ()), ("(VLeaf,)", (VLeaf(v=13),)), ("(VStr2,)", (VStr2(a="q"),)), ("(VLeaf,None)", (VLeaf(v=14), None)), ("VLeaf", VLeaf(v=15)), ("[]", []), ("''", "")],
    }


_FLAKY = [False]
_FLAKY_CLS: list[Any] = []


def _flaky_class():
    """A node class whose own __post_init__ can be made to fail after the base initialisation."""
    if not _FLAKY_CLS:
        import sys
        import types
        from dataclasses import dataclass

        from models.zoo import VBase

        @dataclass(frozen=True)
        class VFlaky(VBase):
            v: int = 0
            kid: VBase | None = None

            def __post_init__(self) -> None:
                super().__post_init__()
                if _FLAKY[0]:
                    raise ValueError("flaky")

        _FLAKY_CLS.append(VFlaky)
        _ = sys, types
    return _FLAKY_CLS[0]


def _failing_operations_first() -> None:
    """Operations on OTHER nodes that fail part-way (with the switch in whatever position the path
    has it): a duplicate() and a replace() whose new node is rejected by its class, a rejected
    construction, a load of a corrupt payload.  None of them may change how the next construction is
    validated."""
    from models.zoo import VLeaf, VValidated

    F = _flaky_class()
    x = F(v=1, kid=F(v=2, kid=VLeaf(v=3)))
    _FLAKY[0] = True
    try:
        for op in (lambda: x.duplicate(), lambda: x.replace(v=5), lambda: F(v=9), lambda: VValidated(v=1, note="ok").replace(note="bad"), lambda: VLeaf.as_obj({"__type": "VLeaf", "id": "zz", "content_id": "zz", "v": {"not": "an int"}, "origin": {}})):
            try:
                op()
            except Exception:  # noqa: BLE001
                pass
    finally:
        _FLAKY[0] = False


def make_construct_harness(first_field: str):
    def harness(e):
        from pyoak import config
        from pyoak.error import InvalidTypes
        from pyoak.node import NODE_REGISTRY

        reset_all()
        cands = _candidates()
        FIELD_ANN = _field_ann()  # noqa: N806
        names = list(FIELD_ANN)
        kw: dict[str, Any] = {}
        desc: dict[str, str] = {}
        expected: set[str] = set()
        second = e.pick(["<none>"] + [n for n in names if n > first_field], "second_field")
        for fname in [first_field] + ([second] if second != "<none>" else []):
            text, val = e.pick(cands[fname], f"value_{fname}")
            kw[fname], desc[fname] = val, text
            c = conforms(val, FIELD_ANN[fname])
            if c is None:
                e.assume(False)
            if not c:
                expected.add(fname)
        scenario: dict[str, Any] = {"fields": desc, "expected_invalid": sorted(expected)}
        saved = dict(NODE_REGISTRY)  # keeps the candidate child nodes registered
        switch = e.bool("RUNTIME_TYPE_CHECK")
        config.RUNTIME_TYPE_CHECK = switch
        prehistory = e.pick(["none", "failing-operations-on-other-nodes-first"], "prehistory")
        scenario["prehistory"] = prehistory
        try:
            if prehistory != "none":
                _failing_operations_first()
            try:
                node = VTyped(**kw)
                raised = None
            except InvalidTypes as ex:
                node, raised = None, sorted(f.name for f in ex.invalid_fields)
            except Exception:  # noqa: BLE001
                # garbage in (e.g. an int in a child field) with validation off may fail in
                # any other way; the statement promises nothing for it
                if not expected:
                    raise
                node, raised = None, None
        finally:
            on = True if switch else False
            config.RUNTIME_TYPE_CHECK = False
        scenario.update(switch=on, raised=raised)
        if on:
            if expected:
                if raised is None:
                    e.fail("ill-typed-construction-accepted", scenario=scenario)
                if raised != sorted(expected):
                    e.fail("invalid_fields-not-exactly-the-non-conforming-fields", scenario=scenario)
            elif raised is not None:
                if all(kw[f] is False or (isinstance(kw[f], tuple) and _mentions_false(kw[f])) for f in raised):
                    e.fail("False-conforms-to-nothing", scenario=scenario)
                e.fail("well-typed-construction-rejected", scenario=scenario)
        else:
            if raised is not None:
                e.fail("type-validation-with-switch-off", scenario=scenario)
        if node is not None and not expected:
            # the node built is the same with the switch in the other position
            snap = (node.id, node.content_id, {n: getattr(node, n) for n in names}, node.ni)
            del node
            NODE_REGISTRY.clear()
            NODE_REGISTRY.update(saved)
            config.RUNTIME_TYPE_CHECK = not on
            try:
                other = VTyped(**kw)
            except InvalidTypes:
                other = None
            finally:
                config.RUNTIME_TYPE_CHECK = False
            if other is not None:
                snap2 = (other.id, other.content_id, {n: getattr(other, n) for n in names}, other.ni)
                if snap[0] != snap2[0] or snap[1] != snap2[1] or snap[3] != snap2[3] or any(snap[2][n] is not snap2[2][n] and snap[2][n] != snap2[2][n] for n in names):
                    scenario.update(with_switch=repr(snap)[:300], other=repr(snap2)[:300])
                    e.fail("node-differs-between-switch-positions", scenario=scenario)
        e.distinct((tuple(sorted(desc.items())), on, prehistory))
        return scenario

    return harness


_HIER_SRC = """
from dataclasses import dataclass, field
from models.zoo import VBase, VLeaf, VStr2

@dataclass(frozen=True)
class HBase_T_(VBase):
    value: int = 0
    kid: VLeaf | None = None

@dataclass(frozen=True)
class HSub_T_(HBase_T_):
    value: str = ""                      # re-declared with another annotation
    extra: tuple[int, ...] = ()
    xkid: VStr2 | None = None
    late: int = field(default=1, init=False)

@dataclass(frozen=True)
class HBadLate_T_(HBase_T_):
    late: int = field(default="not an int", init=False)   # an ill-typed field that is no constructor argument
"""
_HIER_ANN = {
    "HBase": {"value": int, "kid": Optional[VLeaf]},
    "HSub": {"value": str, "kid": Optional[VLeaf], "extra": Tuple[int, ...], "xkid": Optional[VStr2]},
    "HBadLate": {"value": int, "kid": Optional[VLeaf]},
}
_HIER_VALUES = {"value": [("7", 7), ("'x'", "x")], "kid": [("VLeaf", "leaf"), ("VStr2", "str2"), ("None", None)], "extra": [("(1,)", (1,)), ("('a',)", ("a",)), ("()", ())], "xkid": [("VStr2", "str2"), ("VLeaf", "leaf"), ("None", None)]}
_HIER_COUNT = [0]


class _Tok(str):
    """A str subclass (a token class of a lexer)."""


class _Level(__import__("enum").IntEnum):
    ONE = 1
    TWO = 2
    THREE = 3


def literal_membership_harness(e):
    """Literals by MEMBERSHIP: a value that is a member of the literal's arguments conforms also when
    it is an instance of a subclass of the argument's type (a str subclass, an IntEnum member)."""
    from typing import Literal

    from pyoak.typing import is_instance

    reset_all()
    cases = [
        ("Literal['r','w']", Literal["r", "w"], _Tok("r"), True), ("Literal['r','w']", Literal["r", "w"], _Tok("x"), False),
        ("Literal[1,2]", Literal[1, 2], _Level.ONE, True), ("Literal[1,2]", Literal[1, 2], _Level.THREE, False),
        ("Optional[Literal['r']]", Optional[Literal["r"]], _Tok("r"), True), ("Optional[Literal['r']]", Optional[Literal["r"]], None, True),
        ("tuple[Literal['r','w'], ...]", Tuple[Literal["r", "w"], ...], (_Tok("w"), "r"), True), ("tuple[Literal['r','w'], ...]", Tuple[Literal["r", "w"], ...], (_Tok("w"), _Tok("q")), False),
        ("Literal['r','w']", Literal["r", "w"], "r", True), ("Literal[1,2]", Literal[1, 2], 2, True),
    ]
    k = e.choice(len(cases), "case")
    text, ann, value, want = cases[k]
    got = is_instance(value, ann)
    if got is not want:
        e.fail("is_instance-disagrees-with-conformance:literal-membership", scenario={"annotation": text, "value": repr(value), "type": type(value).__name__, "got": got, "expected": want})
    e.distinct(k)
    return {"annotation": text, "value": repr(value)}


def hierarchy_harness(e):
    """Class hierarchies and the order in which their classes are first constructed: every class
    is checked against its own fields (added, re-declared, init or not), whatever came before."""
    import sys
    import types

    from pyoak import config
    from pyoak.error import InvalidTypes

    reset_all()
    _HIER_COUNT[0] += 1
    mod = types.ModuleType(f"vgen_hier{_HIER_COUNT[0]}")
    sys.modules[mod.__name__] = mod
    # class names are unique per path: the library admits one class per name
    tag = f"{_HIER_COUNT[0]}p{__import__('os').getpid()}"
    exec(compile(_HIER_SRC.replace("_T_", tag), mod.__name__, "exec", dont_inherit=True), mod.__dict__)
    for base in ("HBase", "HSub", "HBadLate"):
        mod.__dict__[base] = mod.__dict__[base + tag]
    earlier = e.pick(["nothing", "HBase-checked", "HBase-unchecked", "HSub-checked", "ASTNode-checked", "HBase-then-HSub-checked"], "constructed_earlier")
    for step in {"nothing": [], "HBase-checked": [("HBase", True)], "HBase-unchecked": [("HBase", False)], "HSub-checked": [("HSub", True)], "ASTNode-checked": [("ASTNode", True)], "HBase-then-HSub-checked": [("HBase", True), ("HSub", True)]}[earlier]:
        config.RUNTIME_TYPE_CHECK = step[1]
        try:
            (VBase.__mro__[1] if step[0] == "ASTNode" else mod.__dict__[step[0]])()
        finally:
            config.RUNTIME_TYPE_CHECK = False
    target = e.pick(list(_HIER_ANN), "class")
    ann = _HIER_ANN[target]
    kw: dict[str, Any] = {}
    desc: dict[str, str] = {}
    expected: set[str] = {"late"} if target == "HBadLate" else set()
    nodes = {"leaf": VLeaf(v=31), "str2": VStr2(a="z")}
    fields_given = [e.pick(list(ann), "field")]
    other = e.pick(["<none>"] + [n for n in ann if n > fields_given[0]], "second_field")
    if other != "<none>":
        fields_given.append(other)
    for fname in fields_given:
        text, val = e.pick(_HIER_VALUES[fname], f"value_{fname}")
        val = nodes.get(val, val) if isinstance(val, str) and val in nodes else val
        kw[fname], desc[fname] = val, text
        if not conforms(val, ann[fname]):
            expected.add(fname)
    scenario: dict[str, Any] = {"constructed_earlier": earlier, "class": target, "fields": desc, "expected_invalid": sorted(expected)}
    config.RUNTIME_TYPE_CHECK = True
    try:
        try:
            mod.__dict__[target](**kw)
            raised = None
        except InvalidTypes as ex:
            raised = sorted(f.name for f in ex.invalid_fields)
            own = {f.name: f for f in __import__("dataclasses").fields(mod.__dict__[target])}
            if any(own.get(f.name) is not f for f in ex.invalid_fields):
                scenario.update(raised=raised)
                e.fail("invalid_fields-are-not-the-fields-of-the-class-constructed", scenario=scenario)
    finally:
        config.RUNTIME_TYPE_CHECK = False
    scenario.update(raised=raised)
    if expected and raised is None:
        e.fail("ill-typed-construction-accepted", scenario=scenario)
    if not expected and raised is not None:
        e.fail("well-typed-construction-rejected", scenario=scenario)
    if expected and raised != sorted(expected):
        e.fail("invalid_fields-not-exactly-the-non-conforming-fields", scenario=scenario)
    e.distinct((earlier, target, tuple(sorted(desc.items()))))
    return scenario


def _x_runner(tier: str, seed: int, workers: int):
    from xh import c13_gen
    from xh.runner import run_obligations

    path = os.path.join(VERIF, "xh", "_gen", "c13_x.py")
    names = c13_gen.generate(path, tier)
    import importlib
    import sys

    sys.modules.pop("xh._gen.c13_x", None)
    importlib.invalidate_caches()
    sigs = {n: f"x-is_instance-disagrees:{n}" for n in names}
    obs = run_obligations("xh._gen.c13_x", names, 120 if tier == "quick" else 300, workers=workers, signatures=sigs)
    mod = importlib.import_module("xh._gen.c13_x")
    for o, ann in zip(obs, mod.ANNOTATIONS):
        o.detail["annotation"] = ann
        if o.status == "violated" and "False" in (o.detail.get("crosshair") or ""):
            o.signature = "False-conforms-to-nothing"
    return obs


def replay_obligation(payload):
    from xh import c13_gen
    from xh.runner import replay_call

    path = os.path.join(VERIF, "xh", "_gen", "c13_x.py")
    if not os.path.exists(path):
        c13_gen.generate(path, payload.get("tier", "quick"))
    return replay_call(payload)


def spec(tier: str, seed: int) -> Spec:
    fams = [Family("pool-pairs", pool_harness, variables="selectors: annotation x pool value")]
    for fname in _field_ann():
        fams.append(Family(f"construct-{fname}", make_construct_harness(fname), variables="selectors: one or two deviating fields and their values; lazy: config.RUNTIME_TYPE_CHECK"))
    fams.append(Family("literal-membership", literal_membership_harness, variables="selector: annotation / value case (subclass instances of the literal's type)"))
    fams.append(Family("class-hierarchy-history", hierarchy_harness, variables="selectors: which classes of a hierarchy were constructed earlier (checked or not), class, one or two fields and their values"))
    return Spec(
        families=fams,
        obligation_runners=[_x_runner],
        functions=FUNCTIONS,
        bounds={"X": "48 (quick) / 62 (thorough) annotations to depth 2; value symbolic over int|bool|float|str|None (unbounded ints, arbitrary strings/floats), tuples of them up to length 3, nested tuples of Optional[int] 2x2", "P": "46 annotations x 38 pool values; VTyped constructions with one or two fields deviating from a well-typed baseline (13 fields, 2-5 candidate values each)"},
        rule="X: one obligation per annotation (+ reachability twin); P: a case = (annotation, pool value) or (deviating fields, values, switch); pairs for which the statement is silent (bool offered to float, Literal membership across types) are cut by assume; distinct by that tuple",
        variables="data: symbolic scalar / tuple values (X); selectors: pool values, fields; lazy: RUNTIME_TYPE_CHECK (P)",
        assumptions=["conformance oracle oracles/typing_conf.py states only what the property states; unspecified pairs are skipped", "symbolic booleans are forked to the real singletons before is_instance (it tests identity)"],
        outside=["annotations deeper than 2", "values that are symbolic nodes / enums", "more than two deviating fields per construction"],
    )


def _plant_tuple_len():
    import pyoak.typing as T

    orig = T.is_instance

    def is_instance(value, type_):
        if T.is_tuple(type_) and isinstance(value, tuple):
            args = T.get_args(type_)
            if args and not (len(args) == 2 and args[1] is Ellipsis) and len(value) > len(args):
                value = value[: len(args)]
        return orig(value, type_)

    T.is_instance = is_instance
    import pyoak.node as N

    N.is_instance = is_instance


PLANTED = {"typing_tuple_len": _plant_tuple_len}
