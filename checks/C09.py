"""C09 -- visitor dispatch and transformation follow the rules and keep untouched parts.

Engine P with lazy rule choices: the visitor's visit_<Class> methods are harness
code that consult a symbolic choice (descend / same / rewrite / replace / remove /
raise) at the moment the real accept() dispatches to them, so only actions that the
real traversal reaches are decided; `strict` is a lazy symbolic boolean; which
classes carry a method is a selector.  Reference: DESIGN appendix A.2.
"""
from __future__ import annotations

import dataclasses
from typing import Any

from models.shapes import all_shapes, number
from models.zoo import R, VLeaf, build, describe, kids_of, reset_all
from vcheck.core import Family, Spec

ID = "C09"
FUNCTIONS = ["pyoak.node:ASTNode.accept", "pyoak.visitor:ASTVisitor.visit", "pyoak.visitor:ASTTransformVisitor._transform_children", "pyoak.visitor:ASTTransformVisitor.generic_visit"]
ACTIONS = ["descend", "same", "rewrite", "replace", "equal-copy", "remove", "raise"]
METHOD_SETS = {
    "own-classes": ["VLeaf", "VSubLeaf", "VFalsy", "VStr2", "VMany", "VReq", "VOne", "VPair", "VMixed", "VInh", "VAbAc"],
    "base-class-only": ["VBase"],
    "leaf-class-only": ["VLeaf"],
    "inner-only": ["VMany", "VMixed", "VReq"],
    "none": [],
    "root-class-only": ["ASTNode"],
    "sub-leaf-and-leaf": ["VSubLeaf", "VLeaf"],
}


class _RefRaise(Exception):
    pass


class _RuleError(RuntimeError):
    pass


def _dispatch(node: Any, methods: list[str], strict: bool) -> str | None:
    if strict:
        return type(node).__name__ if type(node).__name__ in methods else None
    for c in type(node).__mro__[:-1]:
        if c.__name__ in methods:
            return c.__name__
    return None


def build_stale_twins(recipe):
    """Build the tree so that equal sibling subtrees are *twins*: distinct, equal node objects
    sharing their ids (ids are unique among registered nodes only: each earlier sibling has left
    the registry -- detach() -- before its equal later sibling is built)."""
    from models.zoo import CLASSES, _is_recipe

    cls, props, origin_, kids = recipe
    kw = dict(props)
    for fname, val in kids:
        if val is None:
            kw[fname] = None
        elif _is_recipe(val):
            kw[fname] = build_stale_twins(val)
        else:
            built = []
            for i, c in enumerate(val):
                n = build_stale_twins(c)
                if any(c == later for later in val[i + 1 :]):
                    n.detach()
                built.append(n)
            kw[fname] = tuple(built)
    if origin_ is not None:
        from models.zoo import origin as _o

        kw["origin"] = _o(origin_)
    return CLASSES[cls](**kw)


def _twin_shapes():
    L = lambda v: R("VLeaf", {"v": v})  # noqa: E731
    return [
        R("VMany", items=(L(1), L(2), L(1))),
        R("VMany", items=(L(1), L(1))),
        R("VMany", items=(L(1), L(1), L(1))),
        R("VMany", items=(R("VReq", child=L(1)), L(2), R("VReq", child=L(1)))),
        R("VMixed", {"v": 5}, first=L(1), items=(L(1), L(1)), one=None),
        R("VReq", child=R("VMany", items=(L(1), L(1), L(2)))),
    ]


def make_harness(shapes_, method_sets, prepare=None, builder=None):
    def harness(e):
        from pyoak.visitor import ASTTransformVisitor

        reset_all()
        shapes = shapes_
        if prepare is not None:
            shapes, _extra = prepare(e)  # freshly created classes (multiple inheritance, mixins, empty bodies)
        sno = e.choice(len(shapes), "shape")
        recipe = shapes[sno]
        if e.flag("last_leaf_falsy"):
            from models.shapes import falsify

            recipe = falsify(recipe)
        mset = e.pick(method_sets, "methods_on")
        methods = METHOD_SETS[mset]
        root = (builder or build)(recipe)
        strict = e.bool("strict")
        inherited_base = [False]
        actions: dict[int, str] = {}
        produced: dict[int, Any] = {}
        called: dict[int, str] = {}
        order: list[int] = []

        def act(node):
            k = id(node)
            if k not in actions:
                opts = ACTIONS if hasattr(node, "v") else [a for a in ACTIONS if a != "rewrite"]
                actions[k] = e.pick(opts, "action")
                order.append(k)
            return actions[k]

        def perform(visitor, node, a):
            if a == "descend":
                return visitor.generic_visit(node)
            if a == "same":
                return node
            if a == "rewrite":
                produced[id(node)] = dataclasses.replace(node, v=node.v + 100)
                return produced[id(node)]
            if a == "replace":
                produced[id(node)] = VLeaf(v=999)
                return produced[id(node)]
            if a == "equal-copy":
                # a different object that compares equal to the visited node (same content, same origin)
                produced[id(node)] = dataclasses.replace(node)
                return produced[id(node)]
            if a == "remove":
                return None
            raise _RuleError("rule raises")

        ns: dict[str, Any] = {"strict": strict}
        for cname in methods:
            def m(self, node, _c=cname):
                called[id(node)] = _c
                return perform(self, node, act(node))

            ns[f"visit_{cname}"] = m
        generic_calls: list[int] = []
        orig_generic = ASTTransformVisitor.generic_visit

        def generic(self, node):
            generic_calls.append(id(node))
            return orig_generic(self, node)

        ns["generic_visit"] = generic
        # the visitor may be derived from another visitor class that was used before it
        # (how the visitor is defined: the last two ways on every fifth shape only, to bound the quick tier)
        derived = e.pick(["plain", "derived-from-a-used-visitor"] + (["handlers-and-strict-set-on-the-object", "static-method-handlers"] if sno % 5 == 0 else []), "visitor_class")
        if derived == "plain":
            V = type("HarnessVisitor", (ASTTransformVisitor,), ns)
        elif derived == "handlers-and-strict-set-on-the-object":
            # a table-driven visitor: its __init__ installs the rules (and strictness) on the OBJECT
            handlers = {k: v for k, v in ns.items() if k.startswith("visit_")}

            def _init(self, _h=handlers, _s=strict):
                self.strict = _s
                for name, fn in _h.items():
                    setattr(self, name, fn.__get__(self, type(self)))

            V = type("HarnessVisitor", (ASTTransformVisitor,), {"generic_visit": generic, "__init__": _init})
        elif derived == "static-method-handlers":
            # handlers declared as static methods: they receive the node only
            holder: dict[str, Any] = {}
            sns: dict[str, Any] = {"strict": strict, "generic_visit": generic}
            for name, fn in ns.items():
                if name.startswith("visit_"):
                    sns[name] = staticmethod(lambda node, _f=fn: _f(holder["visitor"], node))
            V0 = type("HarnessVisitor", (ASTTransformVisitor,), sns)

            def V():  # noqa: N802
                holder["visitor"] = V0()
                return holder["visitor"]
        else:
            def base_method(self, node):
                return node

            Parent = type("ParentVisitor", (ASTTransformVisitor,), {"visit_VBase": base_method, "strict": strict})
            for shape_ in (R("VLeaf"), R("VSubLeaf"), R("VMany", items=(R("VLeaf"),)), R("VReq", child=R("VStr2"))):
                Parent().transform(build(shape_))  # the parent visitor dispatches for every class first
            V = type("HarnessVisitor", (Parent,), ns)
            if "VBase" not in methods:
                # inherited from the parent: nodes without a closer method reach visit_VBase ("same")
                inherited_base[0] = True
        # ---- snapshot of the input
        inputs: dict[int, Any] = {}

        def collect(r, n):
            inputs[id(n)] = (n, {f.name: getattr(n, f.name) for f in dataclasses.fields(n)})
            for fname, idx, crec in kids_of(r):
                val = getattr(n, fname)
                collect(crec, val if idx is None else val[idx])

        collect(recipe, root)
        # ---- run the real transformation
        try:
            result = V().transform(root)
            raised = None
        except _RuleError:
            result, raised = None, "rule"
        except Exception as ex:  # noqa: BLE001
            result, raised = None, f"{type(ex).__name__}: {ex}"
        st = True if strict else False
        scenario: dict[str, Any] = {"tree": describe(recipe), "methods_on": mset, "strict": st, "visitor_class": derived}

        # ---- reference
        dispatched: dict[int, str | None] = {}

        def ref(r, n):
            meth = _dispatch(n, methods + (["VBase"] if inherited_base[0] else []), st)
            dispatched[id(n)] = meth
            if meth is None:
                return ref_generic(r, n)
            if meth == "VBase" and inherited_base[0]:
                dispatched[id(n)] = "__parent_VBase__"
                return ("same", n)
            a = act(n)
            if a == "descend":
                return ref_generic(r, n)
            if a == "same":
                return ("same", n)
            if a == "rewrite":
                return ("rewritten", n)
            if a == "replace":
                return ("replaced", n)
            if a == "equal-copy":
                return ("copied", n)
            if a == "remove":
                return ("removed",)
            raise _RefRaise()

        def ref_generic(r, n):
            per_field: dict[str, list[tuple[int | None, Any]]] = {}
            for fname, idx, crec in kids_of(r):
                val = getattr(n, fname)
                c = val if idx is None else val[idx]
                per_field.setdefault(fname, []).append((idx, ref(crec, c)))
            if all(res[0] == "same" for lst in per_field.values() for _, res in lst):
                return ("same", n)
            return ("rebuilt", n, per_field)

        try:
            expected = ref(recipe, root)
            ref_raised = False
        except _RefRaise:
            expected, ref_raised = None, True
        scenario["actions"] = [actions[k] for k in order]

        # ---- input never modified
        for k, (n, snap) in inputs.items():
            for fname, v in snap.items():
                if getattr(n, fname) is not v:
                    scenario.update(modified=type(n).__name__, field=fname)
                    e.fail("input-tree-modified", scenario=scenario)
        if ref_raised or raised:
            if bool(ref_raised) != (raised == "rule") or raised not in (None, "rule"):
                scenario.update(raised=raised, reference_raises=ref_raised)
                e.fail("raise-behaviour-differs", scenario=scenario)
            e.distinct((sno, mset, st, tuple(scenario["actions"])))
            return scenario
        # ---- dispatch
        for k, meth in dispatched.items():
            if meth == "__parent_VBase__":
                if k in called or k in generic_calls:
                    scenario.update(node=type(inputs[k][0]).__name__, expected_method="visit_VBase of the parent visitor", called=called.get(k), generic_called=k in generic_calls)
                    e.fail("dispatch-wrong", scenario=scenario)
                continue
            got = called.get(k)
            if meth != got or ((meth is None) != (k in generic_calls and got is None)):
                scenario.update(node=type(inputs[k][0]).__name__, expected_method=meth, called=got, generic_called=k in generic_calls)
                e.fail("dispatch-wrong", scenario=scenario)

        # ---- result shape and identity map
        def check(res, exp, where):
            kind = exp[0]
            if kind == "same":
                if res is not exp[1]:
                    scenario.update(at=where, expected="the very same input object", got=repr(res)[:120])
                    e.fail("unchanged-subtree-not-returned-as-same-object", scenario=scenario)
                return
            if kind == "removed":
                if res is not None:
                    scenario.update(at=where)
                    e.fail("removed-node-not-None", scenario=scenario)
                return
            if res is None or id(res) in inputs:
                scenario.update(at=where, expected=kind, got=repr(res)[:120])
                e.fail("changed-node-is-not-a-new-node", scenario=scenario)
            n = exp[1]
            if kind in ("replaced", "copied", "rewritten") and res is not produced.get(id(n)):
                scenario.update(at=where, rule_result=kind)
                e.fail("replacement-not-substituted", scenario=scenario)
            if kind in ("replaced", "copied"):
                return
            if type(res) is not type(n):
                scenario.update(at=where)
                e.fail("rebuilt-node-of-wrong-class", scenario=scenario)
            if kind == "rewritten":
                for f in dataclasses.fields(n):
                    if f.name in ("id", "content_id"):
                        continue
                    if f.name == "v":
                        if res.v != n.v + 100:
                            e.fail("rewrite-not-applied", scenario=scenario)
                    elif getattr(res, f.name) is not getattr(n, f.name):
                        scenario.update(at=where, field=f.name)
                        e.fail("rewrite-changed-other-field", scenario=scenario)
                return
            per_field = exp[2]
            for f in dataclasses.fields(n):
                if f.name in ("id", "content_id"):
                    continue
                got = getattr(res, f.name)
                if f.name not in per_field or all(r[0] == "same" for _, r in per_field[f.name]):
                    if f.init and got is not getattr(n, f.name):
                        scenario.update(at=where, field=f.name)
                        e.fail("untouched-field-is-not-the-same-object", scenario=scenario)
                    continue
                lst = per_field[f.name]
                if lst[0][0] is None:
                    r = lst[0][1]
                    check(got, r, where + f"/{f.name}")
                else:
                    kept = [r for _, r in lst if r[0] != "removed"]
                    if not isinstance(got, tuple) or len(got) != len(kept):
                        scenario.update(at=where, field=f.name, expected_len=len(kept), got=repr(got)[:160])
                        e.fail("tuple-field-not-rebuilt-in-order", scenario=scenario)
                    for i, (g, r) in enumerate(zip(got, kept)):
                        check(g, r, where + f"/{f.name}[{i}]")

        check(result, expected, "<root>")
        e.distinct((sno, mset, st, derived, tuple(scenario["actions"])))
        return scenario

    return harness


def _leaf_rule(v: int, variant: int) -> str:
    k = (v + variant) % 4
    return ["drop", "rewrite", "same", "neg"][k]


def _ref_reuse(recipe, variant):
    """Expected result of the rule set of reuse_harness on a recipe, as a nested description;
    None = removed."""
    cls, props, _o, _k = recipe
    if cls == "VLeaf":
        v = dict(props)["v"]
        how = _leaf_rule(v, variant)
        if how == "drop":
            return None
        if how == "rewrite":
            return ("VLeaf", v + 100)
        if how == "neg":
            return ("VReq", ("VLeaf", -v))
        return ("VLeaf", v)
    out = [cls]
    for fname, idx, crec in kids_of(recipe):
        out.append((fname, idx, _ref_reuse(crec, variant)))
    # tuple elements that were removed disappear (later ones move up); single fields become None
    kids = []
    counters: dict[str, int] = {}
    for fname, idx, res in out[1:]:
        if idx is None:
            kids.append((fname, None, res))
        elif res is not None:
            kids.append((fname, counters.get(fname, 0), res))
            counters[fname] = counters.get(fname, 0) + 1
    return (cls, tuple(kids))


def _describe_result(n):
    if n is None:
        return None
    if type(n).__name__ == "VLeaf":
        return ("VLeaf", n.v)
    if type(n).__name__ == "VReq" and type(n.child).__name__ == "VLeaf" and n.child.v < 0:
        return ("VReq", ("VLeaf", n.child.v))
    kids = []
    for f in dataclasses.fields(n):
        if f.name in ("id", "content_id", "origin", "v"):
            continue
        val = getattr(n, f.name)
        if isinstance(val, tuple):
            kids.extend((f.name, i, _describe_result(c)) for i, c in enumerate(val))
        elif val is None or hasattr(val, "content_id"):
            kids.append((f.name, None, _describe_result(val)))
    return (type(n).__name__, tuple(kids))


def reuse_harness(e):
    """One visitor OBJECT used for many transforms: earlier inputs are dropped (their memory is
    reused by later inputs) while the outputs stay alive.  Each result must be the rewrite of
    its own input."""
    import gc

    from models.zoo import VReq
    from pyoak.visitor import ASTTransformVisitor

    reset_all()
    variant = e.choice(4, "rule_variant")
    strict = e.flag("strict")
    keep_inputs = e.flag("inputs_kept_alive")

    class Rules(ASTTransformVisitor):
        def visit_VLeaf(self, node):
            how = _leaf_rule(node.v, variant)
            if how == "drop":
                return None
            if how == "rewrite":
                return dataclasses.replace(node, v=node.v + 100)
            if how == "neg":
                return VReq(child=dataclasses.replace(node, v=-node.v))
            return node

    Rules.strict = strict
    visitor = Rules()
    L = lambda v: R("VLeaf", {"v": v})  # noqa: E731
    outs, inputs = [], []
    for rnd in range(40):
        a, b, c = 1 + rnd % 7, 2 + (rnd * 3) % 5, 3 + (rnd * 5) % 11
        recipe = [
            R("VMany", items=(L(a), R("VReq", child=L(b)), L(c))),
            R("VMixed", {"v": rnd}, first=L(a), items=(L(b), L(c)), one=L(a + b)),
            R("VReq", child=R("VMany", items=(L(a), L(b), R("VOne", one=L(c))))),
            R("VMany", items=(R("VMany", items=(L(c), L(a))), L(b))),
        ][rnd % 4]
        root = build(recipe)
        out = visitor.transform(root)
        want = _ref_reuse(recipe, variant)
        got = _describe_result(out)
        if got != want:
            e.fail("result-is-not-the-rewrite-of-its-own-input:visitor-object-reused", scenario={"round": rnd, "tree": describe(recipe), "rule_variant": variant, "strict": bool(strict), "inputs_kept_alive": bool(keep_inputs), "got": repr(got)[:400], "expected": repr(want)[:400]})
        if want == _describe_result(root) and out is not root:
            e.fail("unchanged-tree-not-returned-as-itself:visitor-object-reused", scenario={"round": rnd, "tree": describe(recipe), "rule_variant": variant})
        outs.append(out)
        if keep_inputs:
            inputs.append(root)
        root = out = None
        if rnd % 8 == 7:
            gc.collect()
    e.distinct((variant, bool(strict), bool(keep_inputs)))
    return {"rule_variant": variant, "strict": bool(strict), "inputs_kept_alive": bool(keep_inputs)}


_SAME: dict[str, Any] = {}


def _same_named_classes():
    """Two node classes with one __name__ in one module (two dialect factories, a class defined
    again in a notebook cell) and different bases; the library accepts them."""
    if not _SAME:
        from models.zoo import VBase

        @dataclasses.dataclass(frozen=True)
        class SExpr(VBase):
            v: int = 0

        @dataclasses.dataclass(frozen=True)
        class SStmt(VBase):
            v: int = 0

        def mk(base):
            @dataclasses.dataclass(frozen=True)
            class SName(base):
                w: int = 0

            return SName

        _SAME.update(SExpr=SExpr, SStmt=SStmt, a=mk(SExpr), b=mk(SStmt))
    return _SAME


def same_named_harness(e):
    """Dispatch follows the MRO of the visited node's own class, whatever other class of the same
    name was visited before (by this visitor or another one)."""
    from pyoak.visitor import ASTVisitor

    reset_all()
    C = _same_named_classes()
    with_own = e.pick([False, True], "visitor_has_a_method_for_the_shared_name")
    strict = e.pick([False, True], "strict")
    order = e.pick(["a-then-b", "b-then-a", "a-then-b-by-another-visitor-object"], "order")

    def make():
        ns = {"generic_visit": lambda self, node: "generic", "visit_SExpr": lambda self, node: "SExpr", "visit_SStmt": lambda self, node: "SStmt", "strict": strict}
        if with_own:
            ns["visit_SName"] = lambda self, node: "SName"
        return type("SameNamedVisitor", (ASTVisitor,), ns)()

    vis = make()
    seq = ["a", "b"] if order != "b-then-a" else ["b", "a"]
    got, want = [], []
    for k, which in enumerate(seq):
        node = C[which](v=k, w=k)
        if k == 1 and order.endswith("another-visitor-object"):
            vis = make()
        got.append(vis.visit(node))
        want.append("SName" if with_own else ("generic" if strict else {"a": "SExpr", "b": "SStmt"}[which]))
    scenario = {"order": order, "strict": strict, "visitor_has_a_method_for_the_shared_name": with_own, "dispatched_to": got, "expected": want}
    if got != want:
        e.fail("dispatch-wrong:same-named-classes", scenario=scenario)
    e.distinct((with_own, strict, order))
    return scenario


def spec(tier: str, seed: int) -> Spec:
    wide = [number(R("VMany", items=(R("VFalsy"), R("VLeaf"), R("VFalsy")))), number(R("VMixed", first=R("VFalsy"), items=(R("VFalsy"),), one=R("VFalsy"))), number(R("VReq", child=R("VMany", items=(R("VLeaf"), R("VFalsy"))))),
            number(R("VMany", items=(R("VLeaf"), R("VSubLeaf"), R("VLeaf")))), number(R("VMixed", first=R("VLeaf"), items=(R("VLeaf"), R("VLeaf")), one=R("VLeaf"))), number(R("VInh", first=R("VLeaf"), items=(R("VLeaf"),), one=None, extra=R("VMany", items=(R("VLeaf"),))))]
    if tier == "quick":
        dense, sparse = all_shapes(5, 3) + wide, all_shapes(6, 3)[422::4]
    else:
        dense, sparse = all_shapes(6, 3) + wide, all_shapes(7, 3)[1320::2]
    var = "lazy: rule action per dispatched node, strict; selectors: shape, which classes carry a visit method"
    chunk = 8
    fams = [Family(f"dense[{k}:{k + chunk}]", make_harness(dense[k : k + chunk], ["own-classes", "base-class-only", "none"]), variables=var) for k in range(0, len(dense), chunk)]
    fams += [Family(f"sparse[{k}:{k + chunk}]", make_harness(sparse[k : k + chunk], ["leaf-class-only", "inner-only"]), variables=var) for k in range(0, len(sparse), chunk)]
    # node classes whose MRO interleaves plain (non-node) mixins with node classes
    mixed = [number(x) for x in (
        R("VMany", items=(R("VMixLeaf"), R("VLeaf"), R("VLateMix"))),
        R("VReq", child=R("VMixLeaf")),
        R("VMixed", first=R("VDiamond"), items=(R("VMixLeaf"),), one=R("VMixLeaf")),
        R("VMany", items=(R("VDiamond"), R("VReq", child=R("VLateMix")))),
        # node classes that are iterable: a single child stays a single child
        R("VReq", child=R("VIter", items=(R("VLeaf"), R("VLeaf")))),
        R("VMixed", first=R("VIter", items=(R("VLeaf"),)), items=(R("VIter"),), one=R("VIter", items=(R("VLeaf"),))),
        R("VTwoSeq", left=(R("VLeaf"), R("VIter", items=(R("VLeaf"),))), right=(R("VLeaf"),), mid=R("VFalsy")),
        R("VSlot", kid=R("VTwoSeq", left=(R("VLeaf"),), right=(R("VLeaf"), R("VSlot")))),
    )]
    from checks.C05 import _mi_prepare

    for first in (("MNamed",) if tier == "quick" else ("MNamed", "MFunc")):
        fams.append(Family(f"multiple-inheritance-first-{first}", make_harness([], ["leaf-class-only"] if tier == "quick" else ["leaf-class-only", "base-class-only", "none"], prepare=lambda e, _f=first: _mi_prepare(e, (_f,))), variables=var + "; freshly created classes with multiple inheritance / plain dataclass mixins / empty bodies"))
    for k, shp in enumerate(_twin_shapes()):
        fams.append(Family(f"stale-twins[{k}]", make_harness([shp], ["own-classes", "leaf-class-only"], builder=build_stale_twins), variables=var + "; equal siblings are distinct objects sharing one id (the earlier one left the registry first)"))
    fams.append(Family("same-named-classes-with-different-bases", same_named_harness, variables="selectors: which class is visited first, strict, whether the visitor has a method for the shared name, one or two visitor objects"))
    fams.append(Family("visitor-object-reused", reuse_harness, variables="selectors: rule variant, strict, whether earlier inputs stay alive; 40 transforms by one visitor object per path"))
    fams.append(Family("mixin-in-mro", make_harness(mixed, ["base-class-only", "leaf-class-only", "root-class-only", "sub-leaf-and-leaf", "own-classes"]), variables=var + "; classes with a non-node mixin before / after the node base, and a diamond"))
    return Spec(
        families=fams,
        functions=FUNCTIONS,
        bounds={"dense_trees": len(dense), "sparse_trees": len(sparse), "actions": ACTIONS, "method_sets": list(METHOD_SETS)},
        rule="a case = one path = (tree, method set, strict, the action chosen at every node the real accept() or the reference dispatched to); distinct by that tuple; non-trivial whenever at least one rule method was dispatched",
        variables="lazy (action per dispatched node, strict); selectors (shape, method set)",
        assumptions=["rule 'descend' = return self.generic_visit(node); 'same' = return node; runtime type checks off, so a removed required child becomes None as the statement words it"],
        outside=["trees beyond the bound", "rules that depend on visitor state", "validate=True name checks"],
    )


def _plant_strict_ignored():
    import pyoak.node as N
    from inspect import getmro

    def accept(self, visitor):
        m = None
        for _class in getmro(self.__class__)[:-1]:
            m = getattr(visitor, f"visit_{_class.__name__}", None)
            if m is not None:
                break
        if m is None:
            m = visitor.generic_visit
        return m(self)

    N.ASTNode.accept = accept


def _plant_removed_not_marked():
    import pyoak.visitor as V

    orig = V.ASTTransformVisitor._transform_children

    def tc(self, node):
        changes = {}
        changed = set()
        for child, f, index in node.get_child_nodes_with_field():
            if index is not None:
                changes.setdefault(f.name, [])
                new = self.visit(child)
                if new is not None:
                    changes[f.name].append(new)
                    if new is not child:
                        changed.add(f.name)
                # removed child: field not marked as changed
            else:
                new = self.visit(child)
                changes[f.name] = new
                if new is not child:
                    changed.add(f.name)
        if not changed:
            return {}
        return {k: (tuple(v) if isinstance(v, list) else v) for k, v in changes.items() if k in changed}

    V.ASTTransformVisitor._transform_children = tc
    _ = orig


PLANTED = {"vis_strict_ignored": _plant_strict_ignored, "tr_removed_not_marked": _plant_removed_not_marked}
