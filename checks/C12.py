"""C12 -- child and property accessors return exactly what the class definition dictates.

Engine P: the five skip flags and sort_keys are lazy symbolic booleans handed to
the real exec-generated accessors; class hierarchies, instance variants and the
order of first use are selectors.  The oracle is computed from the class recipe.
"""
from __future__ import annotations

from typing import Any

from models import classgen as G
from models.zoo import VFalsy, VLeaf, reset_all
from vcheck.core import Family, Spec

ID = "C12"
FUNCTIONS = [
    "pyoak.codegen:_gen_get_properties_func",
    "pyoak.codegen:_gen_get_child_nodes_func",
    "pyoak.codegen:_gen_get_child_nodes_with_field_func",
    "pyoak.codegen:_gen_iter_child_fields_func",
    "pyoak.codegen:gen_and_yield_get_properties",
    "pyoak.codegen:gen_and_yield_get_child_nodes_with_field",
    "pyoak.node:ASTNode.get_property_fields",
    "pyoak.node:ASTNode.get_child_fields",
    "pyoak.node:ASTNode.to_properties_dict",
    "pyoak.node:ASTNode.children",
    "pyoak.node:ASTNode.__init_subclass__",
]

NAMES = ["zf", "mf", "af", "kf"]  # declaration order differs from name order

# curated field-kind combinations for one level
SINGLES = [("p",), ("pnc",), ("pni",), ("pninc",), ("pkw",), ("cs",), ("co",), ("cu",), ("ct",), ("cf",)]
COMBOS = SINGLES + [
    (),
    ("p", "pnc"), ("pni", "pninc"), ("pninc", "p"), ("pnc", "pni", "p"), ("pkw", "pninc"),
    ("co", "ct"), ("ct", "cs"), ("cu", "cf"), ("cs", "co", "ct"),
    ("p", "co"), ("ct", "pninc"), ("cs", "pnc", "ct"), ("pni", "cu", "p"), ("co", "pninc", "cf"),
    ("coni",), ("ctni", "p"), ("co", "coni", "pni"), ("p", "ctni", "ct"),
]
SMALL = [("p",), ("pninc",), ("co",), ("ct", "pnc"), ("cs", "pni"), ()]


def _level(kinds: tuple, li: int, override: dict[int, str] | None = None) -> tuple:
    out = []
    for si, k in enumerate(kinds):
        name = f"{NAMES[si]}{li}"
        if override and si in override:
            name = override[si]
        out.append((name, k))
    return tuple(out)


def hierarchies(tier: str) -> list[tuple]:
    hs: list[tuple] = []
    for a in COMBOS:
        hs.append((_level(a, 1),))
    second = COMBOS if tier == "thorough" else COMBOS[::3] + [("pninc", "p"), ("cs", "pnc", "ct")]
    for a in COMBOS:
        for b in second:
            hs.append((_level(a, 1), _level(b, 2)))
    third = SMALL if tier == "quick" else SMALL + [("cf",), ("pkw", "cu")]
    for a in third:
        for b in third:
            for c in third:
                hs.append((_level(a, 1), _level(b, 2), _level(c, 3)))
    # overrides: level 2 (or 3) re-declares the first field of level 1 with another kind
    ov_kinds = ["p", "pnc", "pninc", "co", "ct", "pkw"]
    for a in [("p", "co"), ("pnc", "ct"), ("co", "pni"), ("pninc", "p"), ("ct",)]:
        for k in ov_kinds:
            if KIND_REQUIRED_CONFLICT(a[0], k):
                continue
            hs.append((_level(a, 1), _level((k, "p"), 2, {0: f"{NAMES[0]}1"})))
            hs.append((_level(a, 1), _level(("pnc",), 2), _level((k,), 3, {0: f"{NAMES[0]}1"})))
    # de-duplicate, keep order
    seen = set()
    out = []
    for h in hs:
        if h not in seen:
            seen.add(h)
            out.append(h)
    return out


# field names are an input too: the accessors are generated as source text, and a field may be
# called like anything that text uses for itself (loop variables, parameters, helper names)
HOSTILE_NAMES = ["o", "i", "f", "c", "v", "n", "x", "k", "d", "val", "value", "item", "node", "child", "cls", "clz", "fld", "sort_keys", "skip_id", "skip_origin", "skip_non_compare", "skip_non_init", "yield_", "ret", "_fld_zt"]


def hostile_hierarchies() -> list[tuple]:
    hs = []
    for hname in HOSTILE_NAMES:
        hs.append(((("zt", "ct"), (hname, "co"), ("at", "ct")),))  # single child between two tuples (declaration and name order differ)
        hs.append((((hname, "ct"), ("zs", "co"), ("as_", "cu")),))  # tuple child of that name
        hs.append((((hname, "p"), ("zt", "ct"), ("b1", "pninc")), (("a2", "co"),)))  # property of that name, subclass adds a child
    return hs


def KIND_REQUIRED_CONFLICT(old: str, new: str) -> bool:
    # a defaulted field cannot be re-declared in a way that breaks dataclass ordering;
    # all kinds used for overriding have defaults, so nothing conflicts
    return False


_CACHE: dict[Any, list[type]] = {}


def _classes(h: tuple, postponed: bool, fresh: bool) -> list[type]:
    key = (h, postponed)
    if fresh or key not in _CACHE:
        _CACHE.clear()
        _CACHE[key] = G.make_classes(h, postponed)
    return _CACHE[key]


def _values(fields: list[tuple[str, str]], variant: int, counter: list[int]) -> dict[str, Any]:
    def leaf():
        counter[0] += 1
        return VLeaf(v=counter[0])

    def falsy():
        counter[0] += 1
        return VFalsy(v=counter[0])

    def iterable():
        # a node that is iterable over its own items (neither falsy nor sized)
        from models.zoo import VIter

        counter[0] += 1
        return VIter(items=(leaf(),), v=counter[0])

    kw: dict[str, Any] = {}
    if variant == 3:
        for name, k in fields:
            if k == "cs" or k == "co":
                kw[name] = iterable()
            elif k == "cu":
                kw[name] = leaf()
            elif k == "ct":
                kw[name] = (iterable(), leaf())
            elif k == "cf":
                kw[name] = (leaf(), iterable())
        return kw
    for name, k in fields:
        if k == "cs":
            kw[name] = falsy() if variant == 2 else leaf()
        elif k == "co":
            kw[name] = [None, leaf, falsy][variant] and [None, leaf, falsy][variant]()
        elif k == "cu":
            kw[name] = [None, leaf, falsy][variant] and [None, leaf, falsy][variant]()
        elif k == "ct":
            kw[name] = [(), (leaf(),), (falsy(), leaf())][variant]
        elif k == "cf":
            kw[name] = (leaf(), falsy()) if variant == 2 else (leaf(), leaf())
        elif k == "p" and variant == 1:
            kw[name] = 40 + counter[0]
        elif k == "pkw" and variant == 2:
            kw[name] = "given"
    return kw


def make_harness(hs: list[tuple], fresh: bool):
    def harness(e):
        reset_all()
        hno = e.choice(len(hs), "hierarchy")
        h = hs[hno]
        postponed = e.flag("postponed_annotations")
        classes = _classes(h, postponed, fresh)
        depth = len(h)
        # order of first use among the classes of the hierarchy (only meaningful on fresh classes)
        if fresh and depth > 1:
            first = e.choice(depth, "first_used_level")
        else:
            first = depth - 1
        target = e.choice(depth, "queried_level")
        part = e.pick(["children", "properties"], "part")
        variant = e.choice(4, "instance_variant") if part == "children" else 1
        counter = [0]
        scenario: dict[str, Any] = {
            "levels": [list(map(list, lvl)) for lvl in h], "postponed": postponed, "first_used_level": first + 1,
            "queried_level": target + 1, "variant": variant, "fresh_classes": fresh, "part": part,
        }
        # Warm-up.  Fresh classes: only the class chosen by `first_used_level` is used before
        # the queried one.  Cached classes: every class of the hierarchy is used top-down on
        # every path, so a path's outcome never depends on which paths ran before it in this
        # process (and the replay in a fresh interpreter sees the same state).
        for lvl in ([first] if fresh else range(depth)):
            f_fields = G.flatten(h[: lvl + 1])
            inst0 = classes[lvl](**_values(f_fields, 1, counter))
            # touch every accessor of the class
            list(inst0.get_child_nodes()); list(inst0.iter_child_fields()); list(inst0.get_properties()); inst0.children  # noqa: E702
        fields = G.flatten(h[: target + 1])
        kw = _values(fields, variant, counter)
        cls = classes[target]
        node = cls(**kw)
        defaults = G.prop_defaults(h[: target + 1])

        def value_of(name):
            return kw[name] if name in kw else defaults[name]

        sort_keys = e.bool("sort_keys")
        if part == "children":
            _children_part(e, node, cls, kw, fields, variant, sort_keys, scenario)
        else:
            _properties_part(e, node, cls, kw, fields, defaults, sort_keys, scenario, fresh)
        e.distinct((hno, postponed, target, variant, first, part, len(e._decided) if hasattr(e, "_decided") else 0))
        return scenario

    return harness


def _children_part(e, node, cls, kw, fields, variant, sort_keys, scenario):
    if True:
        got_nodes = [id(c) for c in node.get_child_nodes(sort_keys=sort_keys)]
        got_wf = [(id(c), f.name, i) for c, f, i in node.get_child_nodes_with_field(sort_keys=sort_keys)]
        got_icf = [(v if v is None or isinstance(v, tuple) else id(v), f.name) for v, f in node.iter_child_fields(sort_keys=sort_keys)]
        got_children = [id(c) for c in node.children]
        sk = True if sort_keys else False
        scenario["sort_keys"] = sk
        cfields = [(n, k) for n, k in fields if G.KINDS[k]["child"]]
        ordered = sorted(cfields) if sk else cfields
        exp_wf = []
        exp_icf = []
        for name, k in ordered:
            val = kw.get(name, () if k in ("ct", "ctni") else None)
            if G.KINDS[k]["coll"]:
                exp_icf.append((val, name))
                for i, c in enumerate(val):
                    exp_wf.append((id(c), name, i))
            else:
                exp_icf.append((val if val is None else id(val), name))
                if val is not None:
                    exp_wf.append((id(val), name, None))
        exp_decl = []
        for name, k in cfields:
            val = kw.get(name, () if k in ("ct", "ctni") else None)
            if G.KINDS[k]["coll"]:
                exp_decl.extend(id(c) for c in val)
            elif val is not None:
                exp_decl.append(id(val))

        def canon(lst):
            return [(tuple(id(x) for x in v) if isinstance(v, tuple) else v, n) for v, n in lst]

        if got_wf != exp_wf or got_nodes != [x[0] for x in exp_wf]:
            scenario.update(accessor="get_child_nodes(_with_field)", got=[(n, i) for _, n, i in got_wf], expected=[(n, i) for _, n, i in exp_wf])
            falsy_only = variant == 2 and [(n, i) for _, n, i in got_wf] == [(n, i) for (_, n, i), (nm, k) in [((c, n, i), (n, dict(fields)[n])) for c, n, i in exp_wf] if not (i is None and isinstance(kw.get(n), VFalsy))]
            e.fail("falsy-single-child-skipped" if falsy_only else "child-accessor-mismatch", scenario=scenario)
        if canon(got_icf) != canon(exp_icf):
            scenario.update(accessor="iter_child_fields", got=[n for _, n in got_icf], expected=[n for _, n in exp_icf])
            e.fail("iter-child-fields-mismatch", scenario=scenario)
        if got_children != exp_decl:
            scenario.update(accessor="children")
            falsy_only = variant == 2 and len(got_children) < len(exp_decl)
            e.fail("falsy-single-child-skipped" if falsy_only else "children-mismatch", scenario=scenario)
        got_cf = [f.name for f in cls.get_child_fields()]
        if got_cf != [n for n, _ in cfields]:
            scenario.update(accessor="get_child_fields", got=got_cf, expected=[n for n, _ in cfields])
            e.fail("get-child-fields-mismatch", scenario=scenario)



def _properties_part(e, node, cls, kw, fields, defaults, sort_keys, scenario, fresh):
    def value_of(name):
        return kw[name] if name in kw else defaults[name]

    if True:
        if fresh:
            # first-use family: two preset flag vectors instead of all 32
            preset = e.flag("all_flags_inverted")
            skip_id = skip_origin = skip_cid = (not preset)
            skip_nc = skip_ni = preset
        else:
            skip_id, skip_origin, skip_cid = e.bool("skip_id"), e.bool("skip_origin"), e.bool("skip_content_id")
            skip_nc, skip_ni = e.bool("skip_non_compare"), e.bool("skip_non_init")
        sk = True if sort_keys else False
        scenario["sort_keys"] = sk
        got_p = [(v, f.name) for v, f in node.get_properties(skip_id, skip_origin, skip_cid, skip_nc, skip_ni, sort_keys=sort_keys)]
        got_static = [f.name for f in cls.get_property_fields(skip_id, skip_origin, skip_cid, skip_nc, skip_ni)]
        pfields = [("id", "id"), ("content_id", "content_id"), ("origin", "origin")] + [(n, k) for n, k in fields if not G.KINDS[k]["child"]]

        def want(order):
            out = []
            for name, k in order:
                if k == "id":
                    if not skip_id:
                        out.append(name)
                elif k == "content_id":
                    if not skip_cid:
                        out.append(name)
                elif k == "origin":
                    if not skip_origin:
                        out.append(name)
                else:
                    spec = G.KINDS[k]
                    if (not spec["compare"]) and skip_nc:
                        continue
                    if (not spec["init"]) and skip_ni:
                        continue
                    out.append(name)
            return out

        exp_names = want(sorted(pfields) if sk else pfields)
        exp_static = want(pfields)
        flags = {n: (True if b else False) for n, b in [("skip_id", skip_id), ("skip_origin", skip_origin), ("skip_content_id", skip_cid), ("skip_non_compare", skip_nc), ("skip_non_init", skip_ni)] if _decided(e, b)}
        scenario["flags"] = flags
        if [n for _, n in got_p] != exp_names:
            scenario.update(accessor="get_properties", got=[n for _, n in got_p], expected=exp_names)
            extra = [n for _, n in got_p if n not in exp_names]
            kinds = dict(pfields)
            if extra and all(kinds.get(n) == "pninc" for n in extra) and [n for _, n in got_p if n in exp_names] == exp_names:
                e.fail("non-init-and-non-compare-field-yielded-under-skip_non_init", scenario=scenario)
            e.fail("get-properties-mismatch", scenario=scenario)
        for v, n in got_p:
            if n in ("id", "content_id", "origin"):
                ok = v is getattr(node, n)
            else:
                ok = v == value_of(n) and v is getattr(node, n)
            if not ok:
                scenario.update(accessor="get_properties", field=n, got=repr(v))
                e.fail("get-properties-wrong-value", scenario=scenario)
        if got_static != exp_static:
            scenario.update(accessor="get_property_fields", got=got_static, expected=exp_static)
            missing = [n for n in exp_static if n not in got_static]
            if missing and set(missing) <= {"id", "content_id"} and [n for n in exp_static if n not in missing] == got_static:
                e.fail("static-get_property_fields-drops-id-under-skip_non_compare-or-skip_non_init", scenario=scenario)
            e.fail("get-property-fields-mismatch", scenario=scenario)
        tpd = node.to_properties_dict()
        exp_tpd = [n for n, k in pfields if k not in ("id", "content_id", "origin")]
        if list(tpd) != exp_tpd or any(tpd[n] != value_of(n) for n in exp_tpd):
            scenario.update(accessor="to_properties_dict", got=list(tpd), expected=exp_tpd)
            e.fail("to-properties-dict-mismatch", scenario=scenario)
        # a successor that takes over the node's id (same comparable content, the predecessor no
        # longer registered) but differs in its non-comparable properties: every accessor
        # reports the successor's own values
        nc = [n for n, k in fields if k == "pnc"]
        if nc:
            succ = node.replace(**{n: 777 for n in nc})
            tpd2 = succ.to_properties_dict()
            gp2 = {f.name: v for v, f in succ.get_properties(True, True, True, False, False)}
            bad = [n for n in nc if tpd2.get(n) != 777 or gp2.get(n) != 777 or getattr(succ, n) != 777]
            if bad or list(tpd2) != exp_tpd:
                scenario.update(accessor="to_properties_dict / get_properties of a successor created by replace()", fields=bad, got={n: (tpd2.get(n), gp2.get(n)) for n in nc})
                e.fail("accessor-reports-values-of-an-earlier-equal-node", scenario=scenario)


_MI_CACHE: dict[str, Any] = {}


def mi_harness(e):
    """Multiple inheritance, empty-bodied subclasses and subclasses that only re-declare inherited
    fields, on freshly created classes; the class used first is a selector."""
    reset_all()
    order = e.pick([["MNamed"], ["MBodied"], ["MNamed", "MBodied"], ["MFunc"], ["MOverride"], ["MEmpty"], []], "classes_used_first")
    # fresh classes per value of the selector; every path uses `order` first and then all classes
    # in a fixed order (idempotent), so paths are independent of each other
    if _MI_CACHE.get("order") != tuple(order):
        tag, C = G.make_mi_classes()
        _MI_CACHE.clear()
        _MI_CACHE.update(order=tuple(order), tag=tag, C=C)
    tag, C = _MI_CACHE["tag"], _MI_CACHE["C"]
    counter = [0]
    for k in list(order) + sorted(C):
        inst0 = C[k](**_values(G.MI_FIELDS[k], 1, counter))
        list(inst0.get_child_nodes()); list(inst0.iter_child_fields()); list(inst0.get_properties()); inst0.children  # noqa: E702
    target = e.pick(["MFunc", "MEmpty", "MOverride", "MNamed", "MBodied", "MQuoted", "MAnnBase", "MRich", "MOrigin"], "queried_class")
    fields = G.MI_FIELDS[target]
    part = e.pick(["children", "properties"], "part")
    variant = e.choice(4, "instance_variant") if part == "children" else 1
    kw = _values(fields, variant, counter)
    cls = C[target]
    node = cls(**kw)
    defaults = {"label": 5 if target == "MOverride" else 0, "flag": 1, "q": 0, "p": 1, "aflag": 0, "aname": 0, "aweight": 0, "tail": 3}
    scenario: dict[str, Any] = {"classes": "MNamed(name_kid, label) MBodied(body, flag!compare) MFunc(MNamed, MBodied) MEmpty(MNamed) MOverride(MNamed: label!compare, name_kid) MQuoted(quoted and evaluated annotations interleaved) MAnnBase(VBase, plain base annotating aname / atail)", "used_first": order, "queried_class": target, "variant": variant, "part": part}
    sort_keys = e.bool("sort_keys")
    if part == "children":
        _children_part(e, node, cls, kw, fields, variant, sort_keys, scenario)
    else:
        _properties_part(e, node, cls, kw, fields, defaults, sort_keys, scenario, False)
    e.distinct((tuple(order), target, part, variant, len(e._decided) if hasattr(e, "_decided") else 0))
    return scenario


_NT: dict[str, Any] = {}


def newtype_harness(e):
    """Fields annotated with a NewType (also a NewType of a NewType) of a node class are child
    fields, of a scalar properties - like the wrapped types themselves."""
    import sys
    import types

    reset_all()
    if not _NT:
        mod = types.ModuleType("vgen_newtype")
        sys.modules["vgen_newtype"] = mod
        src = (
            "from dataclasses import dataclass, field\nfrom typing import NewType\nfrom models.zoo import VBase, VLeaf\n\n"
            "LeafRef = NewType('LeafRef', VLeaf)\nResolvedRef = NewType('ResolvedRef', LeafRef)\nDeepRef = NewType('DeepRef', ResolvedRef)\n"
            "Count = NewType('Count', int)\nBigCount = NewType('BigCount', Count)\n\n"
            "@dataclass(frozen=True)\nclass VNewTypes(VBase):\n    one: LeafRef\n    two: ResolvedRef\n    three: DeepRef\n    n: Count = Count(0)\n    m: BigCount = BigCount(Count(1))\n    plain: VLeaf | None = None\n"
        )
        exec(compile(src, "vgen_newtype", "exec", dont_inherit=True), mod.__dict__)
        _NT["cls"] = mod.__dict__["VNewTypes"]
    cls = _NT["cls"]
    a, b, c, d = VLeaf(v=1), VLeaf(v=2), VLeaf(v=3), VLeaf(v=4)
    with_plain = e.flag("with_optional_child")
    node = cls(one=a, two=b, three=c, n=5, m=6, plain=d if with_plain else None)
    sort_keys = e.bool("sort_keys")
    sk = True if sort_keys else False
    want_kids = [("one", a), ("two", b), ("three", c)] + ([("plain", d)] if with_plain else [])
    if sk:
        want_kids = sorted(want_kids, key=lambda x: x[0])
    got_wf = [(f.name, id(n_)) for n_, f, _i in node.get_child_nodes_with_field(sort_keys=sort_keys)]
    got_nodes = [id(n_) for n_ in node.get_child_nodes(sort_keys=sort_keys)]
    scenario = {"class": "VNewTypes(one: NewType(VLeaf), two: NewType(NewType(VLeaf)), three: NewType^3, n: NewType(int), m: NewType(NewType(int)), plain: VLeaf | None)", "sort_keys": sk, "with_optional_child": bool(with_plain)}
    if got_wf != [(k, id(v)) for k, v in want_kids] or got_nodes != [id(v) for _k, v in want_kids]:
        scenario.update(got=[k for k, _ in got_wf], expected=[k for k, _ in want_kids])
        e.fail("child-accessor-mismatch:newtype", scenario=scenario)
    if [f.name for f in cls.get_child_fields()] != ["one", "two", "three", "plain"]:
        scenario.update(got=[f.name for f in cls.get_child_fields()])
        e.fail("get-child-fields-mismatch:newtype", scenario=scenario)
    props = [(f.name, v) for v, f in node.get_properties(sort_keys=sort_keys)]
    want_props = [("n", 5), ("m", 6)]
    if sk:
        want_props = sorted(want_props)
    if props != want_props or node.to_properties_dict() != {"n": 5, "m": 6}:
        scenario.update(got=[k for k, _ in props], expected=[k for k, _ in want_props])
        e.fail("get-properties-mismatch:newtype", scenario=scenario)
    if [id(x) for x in node.children] != [id(v) for _k, v in ([("one", a), ("two", b), ("three", c)] + ([("plain", d)] if with_plain else []))]:
        e.fail("children-mismatch:newtype", scenario=scenario)
    e.distinct((sk, bool(with_plain)))
    return scenario


def _decided(e, b) -> bool:
    if isinstance(b, bool):
        return True
    return b.expr.get_id() in e._decided


def spec(tier: str, seed: int) -> Spec:
    hs = hierarchies(tier)
    chunk = 12 if tier == "quick" else 10
    fams = []
    for k in range(0, len(hs), chunk):
        fams.append(Family(f"hier[{k}:{k+chunk}]", make_harness(hs[k : k + chunk], fresh=False), variables="lazy: 5 skip flags + sort_keys; selectors: hierarchy, annotations mode, queried class, instance variant"))
    step = 9 if tier == "quick" else 2
    fresh = hs[::step]
    fchunk = 6
    for k in range(0, len(fresh), fchunk):
        fams.append(Family(f"fresh[{k}:{k+fchunk}]", make_harness(fresh[k : k + fchunk], fresh=True), variables="as above with classes re-created per path; selector: which class of the hierarchy is used first"))
    hh = hostile_hierarchies()
    for k in range(0, len(hh), 15):
        fams.append(Family(f"field-names[{k}:{k + 15}]", make_harness(hh[k : k + 15], fresh=False), variables="as above; selector: a field named like an identifier the generated accessor source may use itself (o, i, sort_keys, skip_id, cls ...)"))
    fams.append(Family("newtype-annotations", newtype_harness, variables="lazy: sort_keys; selector: optional child"))
    fams.append(Family("multiple-inheritance", mi_harness, variables="lazy flags; selectors: classes used first, queried class, part, variant (fresh classes with multiple inheritance, empty bodies, override-only subclasses)"))
    return Spec(
        families=fams,
        functions=FUNCTIONS,
        bounds={"hierarchies": len(hs), "levels": "1-3", "fields_per_level": "0-3 from 10 kinds", "instance_variants": 3, "fresh_class_hierarchies": len(fresh), "flags": "all 2^5 x 2 lazily"},
        rule="a case = one path = (class hierarchy, plain/postponed annotations, queried class, instance variant, first-use order, value of every flag the generated code or the oracle consulted); distinct by that tuple; every case is non-trivial (eight accessors compared)",
        variables="lazy booleans (skip_id, skip_origin, skip_content_id, skip_non_compare, skip_non_init, sort_keys); selectors (hierarchy, annotation mode, level, variant, first use)",
        assumptions=["generated classes use int/str properties and VBase-typed children", "per-path reset of registries"],
        outside=["more than 3 levels or 3 fields per level", "field kinds outside the 10 listed (e.g. non-compare children, InitVar)", "multiple inheritance"],
    )


def _plant_sorted_variant_unsorted():
    import pyoak.codegen as C

    orig = C._gen_get_child_nodes_with_field_func

    def patched(clz, child_fields):
        # sorted variant no longer sorts
        import builtins

        real_sorted = builtins.sorted
        try:
            C.sorted = lambda it, key=None: list(it)  # type: ignore[attr-defined]
            return orig(clz, child_fields)
        finally:
            del C.sorted  # type: ignore[attr-defined]
            _ = real_sorted

    C._gen_get_child_nodes_with_field_func = patched


def _plant_no_bootstrap_reinstall():
    import pyoak.node as N

    orig = N.ASTNode.__init_subclass__.__func__

    def isc(cls) -> None:
        from pyoak.codegen import gen_and_yield_get_properties

        orig(cls)
        # subclasses inherit whatever the parent currently has
        for name in ("iter_child_fields", "get_child_nodes", "get_child_nodes_with_field"):
            if name in cls.__dict__:
                delattr(cls, name)
        _ = gen_and_yield_get_properties

    N.ASTNode.__init_subclass__ = classmethod(isc)


PLANTED = {"sorted_variant_unsorted": _plant_sorted_variant_unsorted, "no_bootstrap_reinstall": _plant_no_bootstrap_reinstall}
