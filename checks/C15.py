"""C15 -- origin algebra.

Engine X (CrossHair) decides the interval laws over unbounded symbolic integers
and the slice law over symbolic text; engine P decides the flattening rules of
`+`, merge_origins and concat_origins over tuples of origins of every kind.
"""
from __future__ import annotations

from typing import Any

from vcheck.core import Family, Spec

ID = "C15"
FUNCTIONS = [
    "pyoak.origin:CodePoint.__post_init__", "pyoak.origin:CodePoint.__lt__", "pyoak.origin:CodePoint.__le__",
    "pyoak.origin:CodeRange.__post_init__", "pyoak.origin:CodeRange.overlaps", "pyoak.origin:CodeRange.__contains__",
    "pyoak.origin:CodeRange.__lt__", "pyoak.origin:CodeRange.__le__", "pyoak.origin:CodeRange.__add__",
    "pyoak.origin:CodeOrigin.__add__", "pyoak.origin:CodeOrigin.get_raw", "pyoak.origin:Origin.__add__",
    "pyoak.origin:MultiOrigin.__post_init__", "pyoak.origin:merge_origins", "pyoak.origin:concat_origins",
]

RANGES = [(0, 2), (2, 4), (5, 7), (1, 3)]
TEXTS = ["0123456789", "abcdefghij", "ABCDEFGHIJ"]


def _pool():
    """(descriptor, object) for every operand option; rebuilt per path."""
    from pyoak.origin import (
        NO_ORIGIN, CodeOrigin, GeneratedCodeOrigin, MemoryTextSource, MultiOrigin, Source, XMLFileOrigin, XMLPath, get_code_range,
    )

    from models.zoo import reset_all

    reset_all()  # every registry, memo table and cache of the library as in a fresh process
    Source.clear_registry()
    srcs = [MemoryTextSource(_raw=TEXTS[k], source_uri=f"S{k}") for k in range(3)]

    def code(k, r):
        a, b = r
        return ({"kind": "code", "src": k, "range": r, "pos_fqn": f"{a}-{b}"}, CodeOrigin(srcs[k], get_code_range(a, 1, a, b, 1, b)))

    def gen(k):
        return ({"kind": "gen", "src": k, "range": (0, 0), "pos_fqn": "0-0"}, GeneratedCodeOrigin(srcs[k]))

    def xml(k):
        return ({"kind": "xml", "src": k, "pos_fqn": "/a/b"}, XMLFileOrigin(srcs[k], XMLPath("/a/b")))

    pool: list[tuple[dict, Any]] = [({"kind": "no"}, NO_ORIGIN)]
    for k in range(3):
        for r in RANGES:
            pool.append(code(k, r))
    for k in range(3):
        pool.append(gen(k))
        pool.append(xml(k))
    # plain origins of the base class (a whole file, as a tool would record it) next to their subclasses
    from pyoak.origin import EntireSourcePosition, Origin

    for k in (0, 1):
        pool.append(({"kind": "whole", "src": k, "pos_fqn": "(entire source)"}, Origin(srcs[k], EntireSourcePosition())))
    # operands that have a real position but no source (NO_SOURCE): they are not NoOrigin
    from pyoak.origin import NO_SOURCE

    srcs.append(NO_SOURCE)
    pool.append(({"kind": "code", "src": 3, "range": (2, 4), "pos_fqn": "2-4", "source_object": "NO_SOURCE"}, CodeOrigin(NO_SOURCE, get_code_range(2, 1, 2, 4, 1, 4))))
    pool.append(({"kind": "xml", "src": 3, "pos_fqn": "/n/s", "source_object": "NO_SOURCE"}, XMLFileOrigin(NO_SOURCE, XMLPath("/n/s"))))
    # operands whose source is equal to srcs[0] but another object (one source object per token)
    twin0 = MemoryTextSource(_raw=TEXTS[0], source_uri="S0")
    pool.append(({"kind": "code", "src": 0, "range": (5, 7), "pos_fqn": "5-7", "source_object": "equal twin of S0"}, CodeOrigin(twin0, get_code_range(5, 1, 5, 7, 1, 7))))
    pool.append(({"kind": "xml", "src": 0, "pos_fqn": "/a/c", "source_object": "equal twin of S0"}, XMLFileOrigin(twin0, XMLPath("/a/c"))))
    m2 = [code(0, (0, 2)), xml(1)]
    m3 = [code(0, (5, 7)), code(0, (8, 9)), gen(2)]
    pool.append(({"kind": "multi", "members": m2}, MultiOrigin([o for _, o in m2])))
    pool.append(({"kind": "multi", "members": m3}, MultiOrigin([o for _, o in m3])))
    return srcs, pool


def _flatten(ops: list[tuple[dict, Any]]) -> list[tuple[dict, Any]]:
    out = []
    for d, o in ops:
        if d["kind"] == "no":
            continue
        if d["kind"] == "multi":
            out.extend(d["members"])
        else:
            out.append((d, o))
    return out


def _expect_merge(e, srcs, ops, got, scenario, what):
    """merge semantics of the statement; returns the descriptor of the result."""
    from pyoak.origin import NO_ORIGIN, MultiOrigin, SourceSet

    def bad(sig, **kw):
        scenario.update(op=what, got=repr(got)[:300], **kw)
        e.fail(sig, scenario=scenario)

    if len(ops) == 1:
        if got is not ops[0][1]:
            bad("single-operand-not-returned-itself")
        return ops[0][0]
    members = _flatten(ops)
    if not members:
        if got is not NO_ORIGIN:
            bad("empty-merge-not-NoOrigin")
        return {"kind": "no"}
    if len(members) == 1:
        if got is not members[0][1]:
            bad("one-remaining-operand-not-returned-itself")
        return members[0][0]
    if type(got) is not MultiOrigin:
        bad("result-not-a-MultiOrigin")
    if len(got.origins) != len(members) or any(g is not m[1] for g, m in zip(got.origins, members)):
        bad("multi-origin-members-wrong", expected=[m[0].get("kind") for m in members])
    if any(type(g) in (MultiOrigin, type(NO_ORIGIN)) for g in got.origins):
        bad("multi-origin-nested-or-contains-NoOrigin")
    ksrc = [m[0]["src"] for m in members]
    if all(k == ksrc[0] for k in ksrc):
        # the common source: equal to every member's source (members may hold equal but distinct objects)
        if type(got.source) is SourceSet or got.source != srcs[ksrc[0]]:
            bad("multi-origin-source-not-common-source")
        src_fqn = srcs[ksrc[0]].fqn
    else:
        if type(got.source) is not SourceSet or len(got.source.sources) != len(ksrc) or any(s != srcs[k] for s, k in zip(got.source.sources, ksrc)):
            bad("multi-origin-source-set-wrong", expected_sources=ksrc)
        src_fqn = "SourceSet(" + "||".join(srcs[k].fqn for k in ksrc) + ")"
    want_fqn = src_fqn + "::" + "PositionSet(" + "||".join(m[0]["pos_fqn"] for m in members) + ")"
    if got.fqn != want_fqn:
        bad("multi-origin-fqn-wrong", expected_fqn=want_fqn, got_fqn=got.fqn)
    return {"kind": "multi", "members": members}


def _expect_add(e, srcs, a, b, got, scenario, what):
    from pyoak.origin import CodeOrigin

    da, db = a[0], b[0]
    if da["kind"] in ("code", "gen") and db["kind"] in ("code", "gen") and da["src"] == db["src"]:
        (a0, a1), (b0, b1) = da["range"], db["range"]
        if b0 <= a1 and a0 <= b1:
            lo, hi = min(a0, b0), max(a1, b1)
            ok = (
                type(got) is CodeOrigin and got.source == srcs[da["src"]]
                and got.position.start.index == lo and got.position.end.index == hi
                and got.get_raw() == (TEXTS[da["src"]][lo:hi] if da["src"] < len(TEXTS) else None)
            )
            if not ok:
                scenario.update(op=what, got=repr(got)[:300], expected_range=(lo, hi))
                e.fail("code-origin-hull-wrong", scenario=scenario)
            return {"kind": "code", "src": da["src"], "range": (lo, hi), "pos_fqn": f"{lo}-{hi}"}
    return _expect_merge(e, srcs, [a, b], got, scenario, what)


def make_harness(n_ops: int, first: int | None):
    def harness(e):
        from pyoak.origin import concat_origins, merge_origins

        srcs, pool = _pool()
        prehistory = e.pick(["none", "equal-source-with-other-text-sliced-earlier", "source-registry-cleared-after-the-operands-were-created"], "prehistory")
        earlier = prehistory == "equal-source-with-other-text-sliced-earlier"
        if prehistory.startswith("source-registry-cleared"):
            # the source registry is a public, clearable table (Source.clear_registry()); origins created
            # before the clearing stay valid objects and the algebra must not depend on the table
            from pyoak.origin import Source

            Source.clear_registry()
        if earlier:
            # an equal source (same uri and type: the text is no part of source equality) holding
            # another text -- a buffer re-parsed after an edit -- was sliced at every range before
            from pyoak.origin import CodeOrigin, MemoryTextSource, get_code_range

            for k in range(3):
                twin = MemoryTextSource(_raw=TEXTS[(k + 1) % 3][::-1], source_uri=f"S{k}")
                for a in sorted({r[0] for r in RANGES}):
                    for b in sorted({r[1] for r in RANGES}):
                        if a <= b:
                            CodeOrigin(twin, get_code_range(a, 1, a, b, 1, b)).get_raw()
        idx = []
        for k in range(n_ops):
            if k == 0 and first is not None:
                idx.append(first)
            else:
                idx.append(e.choice(len(pool), f"operand{k}"))
        ops = [pool[i] for i in idx]
        mode = e.pick(["merge", "concat", "plus"], "function")
        scenario = {"operands": [_describe(d) for d, _ in ops], "function": mode, "prehistory": prehistory}
        objs = [o for _, o in ops]
        if mode == "merge":
            got = merge_origins(*objs)
            _expect_merge(e, srcs, ops, got, scenario, "merge_origins")
        elif mode == "concat":
            got = concat_origins(*objs)
            acc = ops[0]
            # reference: left fold of +; the library result is only available at the end, so the
            # reference recomputes every intermediate with the library's + (each checked)
            cur = objs[0]
            for k in range(1, n_ops):
                nxt = cur + objs[k]
                d = _expect_add(e, srcs, acc, ops[k], nxt, scenario, f"fold step {k}")
                acc, cur = (d, nxt), nxt
            if not _same(got, cur):
                scenario.update(op="concat_origins", got=repr(got)[:300], fold=repr(cur)[:300])
                e.fail("concat-differs-from-left-fold-of-plus", scenario=scenario)
        else:
            if n_ops != 2:
                e.assume(False)
            got = objs[0] + objs[1]
            _expect_add(e, srcs, ops[0], ops[1], got, scenario, "+")
        e.distinct((tuple(idx), mode, prehistory))
        return scenario

    return harness


def _same(a, b) -> bool:
    return a is b or (type(a) is type(b) and a == b)


def _describe(d: dict) -> Any:
    if d["kind"] == "multi":
        return {"multi": [_describe(m[0]) for m in d["members"]]}
    return {k: v for k, v in d.items() if k != "pos_fqn"}


def _x_runner(tier: str, seed: int, workers: int):
    from xh import c15_x
    from xh.runner import run_obligations

    return run_obligations("xh.c15_x", c15_x.QUICK if tier == "quick" else c15_x.THOROUGH, 150 if tier == "quick" else 600, workers=workers)


def replay_obligation(payload):
    from xh.runner import replay_call

    return replay_call(payload)


def spec(tier: str, seed: int) -> Spec:
    fams = []
    npool = 25
    for n in (1, 2):
        fams.append(Family(f"tuples-of-{n}", make_harness(n, None), variables="selectors: operand kinds / sources / ranges, function"))
    for f in range(npool):
        fams.append(Family(f"tuples-of-3-first{f}", make_harness(3, f), variables="selectors: operand kinds / sources / ranges, function"))
    if tier == "thorough":
        for f in range(npool):
            fams.append(Family(f"tuples-of-4-first{f}", make_harness(4, f), variables="selectors: operand kinds / sources / ranges, function"))
    return Spec(
        families=fams,
        obligation_runners=[_x_runner],
        functions=FUNCTIONS,
        bounds={"X": "unbounded integers for all interval laws (points built by index -> (1 + index div w, index mod w), symbolic w >= 1); rejection of bad line/column for values in [-3, 3] and of reversed ranges for indices <= 6 (the error messages render the integers, which CrossHair realises); slice law: text length <= 3 with indices <= 4 and length <= 4 with indices <= 6", "P": f"tuples of up to {4 if tier == 'thorough' else 3} origins from 21 options (NoOrigin, 12 code origins over 3 sources x 4 ranges, generated, XML, two multi-origins)"},
        rule="X: one obligation per law, each with a reachability twin that must be violated; P: a case = one tuple of operands x function; all are non-trivial; distinct by (operand indices, function)",
        variables="data: unbounded symbolic ints, symbolic text (X); selectors: origin kinds, sources, ranges (P)",
        assumptions=["hull commutativity/associativity asserted for points with a consistent index->(line, column) map", "CrossHair's model of int and str"],
        outside=["texts longer than 4 characters for the slice law", "tuples of more than 4 origins", "sources other than in-memory text"],
    )


def _plant_origin_contains():
    from pyoak.origin import CodeRange

    def contains(self, other):
        return self.start <= other.start and other.end < self.end or (self.start == other.start and self.end == other.end and False)

    CodeRange.__contains__ = contains


def _plant_merge_keeps_noorigin():
    import pyoak.origin as O

    def merge(*origins):
        if len(origins) == 1:
            return origins[0]
        new = []
        for o in origins:
            if isinstance(o, O.MultiOrigin):
                new.extend(o.origins)
            else:
                new.append(o)
        if len(new) == 1:
            return new[0]
        return O.MultiOrigin(origins=new)

    O.merge_origins = merge


PLANTED = {"merge_keeps_noorigin": _plant_merge_keeps_noorigin, "origin_contains": _plant_origin_contains}
