#!/bin/sh
# Builds /verif/.venv: an overlay of /venv (which holds pyoak's dependencies) plus
# crosshair-tool, z3-solver and cvc5 from the offline wheelhouse.  Idempotent.
set -e
cd "$(dirname "$0")"
V=./.venv
if [ ! -x "$V/bin/python" ] || ! "$V/bin/python" -c "import z3, crosshair, cvc5, lark, mashumaro" >/dev/null 2>&1; then
    rm -rf "$V"
    /venv/bin/python -m venv "$V"
    SP=$("$V/bin/python" -c "import sysconfig; print(sysconfig.get_paths()['purelib'])")
    printf "import site; site.addsitedir('/venv/lib/python3.12/site-packages')\n" > "$SP/zz_overlay.pth"
    PIP_NO_INDEX=1 "$V/bin/python" -m pip install -q --no-index --find-links /opt/veriftools/wheels crosshair-tool z3-solver cvc5 >/dev/null
fi
"$V/bin/python" -c "import z3, crosshair, cvc5, lark, mashumaro; print('verif venv ok: z3', z3.get_version_string(), 'cvc5', cvc5.__version__)"
