"""The conformance relation of C13, written from the statement (not from dacite):

  bool values conform to bool and not to int; ints are acceptable for float;
  None only where the annotation allows it; tuples element-wise, exact length for
  fixed tuples; literals by membership; unions by any member; node (class) fields
  by instance; Any accepts everything.

`conforms` returns True / False, or None where the statement is silent
(bool offered to float; Literal membership across types, e.g. True vs Literal[1]).
"""
from __future__ import annotations

import types
import typing
from typing import Any


def conforms(v: Any, T: Any) -> bool | None:
    if T is Any:
        return True
    if T is None or T is type(None):
        return v is None
    origin = typing.get_origin(T)
    args = typing.get_args(T)
    if origin is typing.Union or isinstance(T, types.UnionType):
        res = [conforms(v, a) for a in args]
        if any(r is True for r in res):
            return True
        if any(r is None for r in res):
            return None
        return False
    if origin is typing.Literal:
        exact = [a for a in args if type(a) is type(v) and a == v]
        if exact:
            return True
        if any(a == v for a in args):
            return None  # equal across types (True == 1, 1.0 == 1): statement silent
        return False
    if origin is tuple or T is tuple:
        if not isinstance(v, tuple):
            return False
        if T is tuple or not args:
            return True if T is tuple else len(v) == 0
        if args == ((),):
            return len(v) == 0
        if len(args) == 2 and args[1] is Ellipsis:
            return _all(conforms(x, args[0]) for x in v)
        if len(args) != len(v):
            return False
        return _all(conforms(x, a) for x, a in zip(v, args))
    if origin is not None:
        # other generic containers (frozenset[int], Sequence[...]): container type, then elements
        if not isinstance(v, origin):
            return False
        if not args:
            return True
        return _all(conforms(x, args[0]) for x in v)
    if T is bool:
        return isinstance(v, bool)
    if T is int:
        return isinstance(v, int) and not isinstance(v, bool)
    if T is float:
        if isinstance(v, bool):
            return None  # statement: "ints are acceptable for float" -- silent about bools
        return isinstance(v, (int, float))
    if isinstance(T, type):
        if isinstance(v, bool) and T is not bool and issubclass(bool, T) and T is not object:
            return None
        return isinstance(v, T)
    raise ValueError(f"annotation outside the oracle's grammar: {T!r}")


def _all(it) -> bool | None:
    unknown = False
    for r in it:
        if r is False:
            return False
        if r is None:
            unknown = True
    return None if unknown else True
