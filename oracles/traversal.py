"""Reference traversals (DESIGN appendix A.1), computed from the recipe.

A position is a tuple (node, parent, field_name, findex, recipe) where node and
parent are the real objects found by plain attribute access along the recipe --
never by any pyoak traversal or accessor.
"""
from __future__ import annotations

from collections import deque
from typing import Any, Callable

from models.zoo import kids_of

Pos = tuple  # (node, parent, fname, findex, recipe)


def child_positions(recipe: Any, node: Any, skip_falsy_single: bool = False) -> list[Pos]:
    out = []
    for fname, idx, crec in kids_of(recipe):
        val = getattr(node, fname)
        c = val if idx is None else val[idx]
        if skip_falsy_single and idx is None and crec[0] == "VFalsy":
            continue
        out.append((c, node, fname, idx, crec))
    return out


def key(pos: Pos) -> tuple:
    return (id(pos[0]), id(pos[1]), pos[2], pos[3])


def pre_order(recipe, node, flt: Callable[[Pos], Any], prune: Callable[[Pos], Any], sfs=False) -> list[Pos]:
    out: list[Pos] = []

    def rec(r, n):
        for pos in child_positions(r, n, sfs):
            if flt(pos):
                out.append(pos)
            if not prune(pos):
                rec(pos[4], pos[0])

    rec(recipe, node)
    return out


def post_order(recipe, node, flt, prune, sfs=False) -> list[Pos]:
    out: list[Pos] = []

    def rec(r, n):
        for pos in child_positions(r, n, sfs):
            if not prune(pos):
                rec(pos[4], pos[0])
            if flt(pos):
                out.append(pos)

    rec(recipe, node)
    return out


def level_order(recipe, node, flt, prune, sfs=False) -> list[Pos]:
    out: list[Pos] = []
    q = deque(child_positions(recipe, node, sfs))
    while q:
        pos = q.popleft()
        if flt(pos):
            out.append(pos)
        if prune(pos):
            continue
        q.extend(child_positions(pos[4], pos[0], sfs))
    return out


def all_positions(recipe, node) -> list[Pos]:
    return pre_order(recipe, node, lambda p: True, lambda p: False)


def has_falsy_single(recipe) -> bool:
    for fname, idx, crec in kids_of(recipe):
        if idx is None and crec[0] == "VFalsy":
            return True
        if has_falsy_single(crec):
            return True
    return False
