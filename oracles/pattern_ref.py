"""Reference pattern matcher (DESIGN appendix A.4), over pattern descriptors.

Descriptor grammar (the generator renders the text from the same descriptor):
  tree  := ("tree", classes | "*", [(field, spec, capture|None), ...])
  spec  := None                      bare "@f"      (any value)
         | ("val", value)            "@f=value"
         | ("seq", [(value, capture|None), ...], tail)   tail := None | ("*", capture|None)
  value := tree | ("var", name) | ("none",) | ("re", text)
"""
from __future__ import annotations

import re
from collections.abc import Sequence
from dataclasses import fields as dc_fields
from typing import Any


def render(t: tuple) -> str:
    _, classes, fspecs = t
    cs = "*" if classes == "*" else " | ".join(classes)
    out = f"({cs}"
    for fname, spec, cap in fspecs:
        out += f" @{fname}"
        if spec is not None:
            out += "=" + (_render_seq(spec) if spec[0] == "seq" else _render_value(spec[1]))
        if cap:
            out += f" -> {cap}"
    return out + ")"


def _render_value(v: tuple) -> str:
    if v[0] == "tree":
        return render(v)
    if v[0] == "var":
        return f"${v[1]}"
    if v[0] == "none":
        return "None"
    return '"' + v[1] + '"'


def _render_seq(s: tuple) -> str:
    _, items, tail = s
    parts = []
    for val, cap in items:
        parts.append(_render_value(val) + (f" -> {cap}" if cap else ""))
    if tail is not None:
        parts.append("*" + (f" -> {tail[1]}" if tail[1] else ""))
    return "[" + " ".join(parts) + "]"


def content_equal(a: Any, b: Any) -> bool:
    """Structural content equality of two nodes (class, comparable properties, children)."""
    from pyoak.node import ASTNode

    if type(a) is not type(b):
        return False
    for f in dc_fields(a):
        if f.name in ("id", "content_id", "origin") or not f.compare:
            continue
        x, y = getattr(a, f.name), getattr(b, f.name)
        if isinstance(x, ASTNode) or isinstance(y, ASTNode):
            if not (isinstance(x, ASTNode) and isinstance(y, ASTNode) and content_equal(x, y)):
                return False
        elif isinstance(x, tuple) and x and isinstance(x[0], ASTNode):
            if not (isinstance(y, tuple) and len(x) == len(y) and all(content_equal(p, q) for p, q in zip(x, y))):
                return False
        elif type(x) is not type(y) or x != y:
            return False
    return True


def match_tree(t: tuple, node: Any, ctx: dict[str, Any], classes: dict[str, type]) -> tuple[bool, dict[str, Any]]:
    from pyoak.node import ASTNode

    _, cls, fspecs = t
    want = (ASTNode,) if cls == "*" else tuple(classes[c] for c in cls)
    if not isinstance(node, want):
        return False, {}
    lctx = dict(ctx)
    caps: dict[str, Any] = {}
    for fname, spec, cap in fspecs:
        if not hasattr(node, fname):
            return False, {}
        v = getattr(node, fname)
        ok, c = match_spec(spec, v, lctx, classes)
        if not ok:
            return False, {}
        if cap:
            c = {cap: v, **c}
        lctx.update(c)
        caps.update(c)
    return True, caps


def match_spec(spec: Any, v: Any, ctx: dict[str, Any], classes: dict[str, type]) -> tuple[bool, dict[str, Any]]:
    if spec is None:
        return True, {}
    if spec[0] == "val":
        return match_value(spec[1], v, ctx, classes)
    _, items, tail = spec
    if not items and tail is None:
        return (isinstance(v, tuple) and len(v) == 0), {}
    if not isinstance(v, Sequence) or isinstance(v, str):
        return False, {}
    if tail is None and len(v) != len(items):
        return False, {}
    if tail is not None and len(v) < len(items):
        return False, {}
    lctx = dict(ctx)
    caps: dict[str, Any] = {}
    for (val, cap), x in zip(items, v):
        ok, c = match_value(val, x, lctx, classes)
        if not ok:
            return False, {}
        if cap:
            c = {cap: x, **c}
        lctx.update(c)
        caps.update(c)
    if tail is not None and tail[1]:
        caps[tail[1]] = v[len(items):]
    return True, caps


def match_value(val: tuple, v: Any, ctx: dict[str, Any], classes: dict[str, type]) -> tuple[bool, dict[str, Any]]:
    from pyoak.node import ASTNode

    if val[0] == "tree":
        return match_tree(val, v, ctx, classes)
    if val[0] == "none":
        return v is None, {}
    if val[0] == "re":
        return re.match(val[1], str(v)) is not None, {}
    if val[0] == "var":
        captured = ctx[val[1]]
        if isinstance(captured, ASTNode):
            return (isinstance(v, ASTNode) and content_equal(captured, v)), {}
        return (captured == v), {}
    raise ValueError(val)


def uses_any_matcher(t: tuple) -> list[bool]:
    """For the signature families: one entry per construction of the any-value matcher in
    text order (bare @f, @f -> c, '*' in a sequence), True when that occurrence carries a capture."""
    out: list[bool] = []

    def tree(t_):
        for _f, spec, cap in t_[2]:
            if spec is None:
                out.append(bool(cap))
            elif spec[0] == "val":
                value(spec[1])
            else:
                for val, _c in spec[1]:
                    value(val)
                if spec[2] is not None:
                    out.append(bool(spec[2][1]))

    def value(v):
        if v[0] == "tree":
            tree(v)

    tree(t)
    return out


def has_captured_tail_seq(t: tuple) -> bool:
    """A sequence spec with a trailing '*' that is captured as a whole: `@f=[... *] -> c`."""
    for _f, spec, cap in t[2]:
        if spec is not None and spec[0] == "seq" and spec[2] is not None and cap:
            return True
        if spec is not None and spec[0] == "val" and spec[1][0] == "tree" and has_captured_tail_seq(spec[1]):
            return True
        if spec is not None and spec[0] == "seq":
            for val, _c in spec[1]:
                if val[0] == "tree" and has_captured_tail_seq(val):
                    return True
    return False
