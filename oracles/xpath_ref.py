"""Reference evaluator of the documented xpath semantics (DESIGN appendix A.3).

A path is a list of steps (anywhere, field, index, cls): field / index / cls are
None when not given; index "any" (`[]`) is also None.  `render` spells the text.
"""
from __future__ import annotations

from typing import Any


def render(steps: list[tuple], relative: bool) -> str:
    out = []
    for k, (anywhere, field, index, cls) in enumerate(steps):
        if k == 0 and relative:
            sep = ""  # a path not starting with '/' means: anywhere
        else:
            sep = "//" if anywhere else "/"
        s = sep
        if field is not None:
            s += f"@{field}"
        if index is not None:
            s += "[]" if index == "any" else f"[{index}]"
        if cls is not None:
            # a space keeps the lexer from reading "@itemsVBase" as one field name
            s += (" " if field is not None and index is None else "") + cls
        out.append(s)
    return "".join(out)


def step_holds(step: tuple, chain_item: tuple, classes: dict[str, type]) -> bool:
    """chain_item = (node, field_name|None, index|None); the root has neither."""
    _anywhere, field, index, cls = step
    node, fname, findex = chain_item
    if cls is not None and not isinstance(node, classes[cls]):
        return False
    if field is not None and field != fname:
        return False
    if index is not None and index != "any":
        if findex is None or int(index) != findex:
            return False
    return True


def matches(steps: list[tuple], relative: bool, chain: list[tuple], classes: dict[str, type]) -> bool:
    """chain = [(root, None, None), ..., (node, field, index)]"""
    m = len(steps)
    k = len(chain) - 1
    anyw = [s[0] for s in steps]
    if relative:
        anyw[0] = True

    # can steps[0..i] be placed ending exactly at chain position j ?
    memo: dict[tuple[int, int], bool] = {}

    def ok(i: int, j: int) -> bool:
        key = (i, j)
        if key in memo:
            return memo[key]
        r = False
        if step_holds(steps[i], chain[j], classes):
            if i == 0:
                r = (j == 0) or anyw[0]
            elif anyw[i]:
                r = any(ok(i - 1, jj) for jj in range(0, j))
            else:
                r = j >= 1 and ok(i - 1, j - 1)
        memo[key] = r
        return r

    return ok(m - 1, k)


def chains(recipe: Any, root: Any) -> list[list[tuple]]:
    """Root-to-node chain for every node of the tree, pre-order, from the recipe."""
    from models.zoo import kids_of

    out: list[list[tuple]] = []

    def rec(rec_, node, chain):
        out.append(chain)
        for fname, idx, crec in kids_of(rec_):
            val = getattr(node, fname)
            c = val if idx is None else val[idx]
            rec(crec, c, chain + [(c, fname, idx)])

    rec(recipe, root, [(root, None, None)])
    return out
