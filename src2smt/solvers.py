"""Engine Z, part 3: solver drivers.  cvc5 (Python wheel 1.4.0, strings-exp) is the
primary solver, z3 5.1.0 the cross-check.  A sat/unsat disagreement, an `(error`
line or unknown/timeout from the primary is never a verdict."""
from __future__ import annotations

import hashlib
import os
import subprocess
import sys
import time

HERE = os.path.dirname(os.path.abspath(__file__))
GEN = os.path.join(HERE, "_gen")


def _first_word(out: str) -> str:
    for line in out.splitlines():
        line = line.strip()
        if line in ("sat", "unsat", "unknown"):
            return line
    return "unknown"


def run_cvc5(path: str, timeout: float) -> tuple[str, str, float]:
    t0 = time.time()
    try:
        p = subprocess.run([sys.executable, os.path.join(HERE, "cvc5_run.py"), path, str(int(timeout * 1000))], capture_output=True, text=True, timeout=timeout + 20)
        out = p.stdout + p.stderr
    except subprocess.TimeoutExpired:
        return "unknown", "timeout", time.time() - t0
    if "(error" in out:
        return "error", out, time.time() - t0
    return _first_word(out), out, time.time() - t0


def run_z3(path: str, timeout: float) -> tuple[str, str, float]:
    t0 = time.time()
    exe = "z3-new"
    try:
        p = subprocess.run([exe, f"-T:{int(timeout)}", path], capture_output=True, text=True, timeout=timeout + 10)
        out = p.stdout + p.stderr
    except (subprocess.TimeoutExpired, FileNotFoundError):
        return "unknown", "timeout", time.time() - t0
    w = _first_word(out)
    if w == "unknown" or "timeout" in out:
        return "unknown", out, time.time() - t0
    return w, out, time.time() - t0


def solve(name: str, smt: str, timeout: float, cross_timeout: float = 8.0) -> dict:
    os.makedirs(GEN, exist_ok=True)
    digest = hashlib.sha256(smt.encode()).hexdigest()[:10]
    path = os.path.join(GEN, f"{name[:60].replace('/', '_').replace(' ', '_')}-{digest}.smt2")
    with open(path, "w") as f:
        f.write(smt)
    from concurrent.futures import ThreadPoolExecutor

    with ThreadPoolExecutor(max_workers=2) as ex:
        f1 = ex.submit(run_cvc5, path, timeout)
        f2 = ex.submit(run_z3, path, cross_timeout)
        v1, out1, s1 = f1.result()
        v2, out2, s2 = f2.result()
    verdict = v1
    note = ""
    if v1 in ("sat", "unsat") and v2 in ("sat", "unsat") and v1 != v2:
        verdict, note = "disagree", f"cvc5={v1} z3={v2}"
    elif v1 not in ("sat", "unsat") and v2 in ("sat", "unsat"):
        # the cross-check solver alone decided: usable only for sat (a model is checked by replay)
        if v2 == "sat":
            verdict, out1, note = "sat", out2, "decided by z3 only"
        else:
            verdict, note = "unknown", "cvc5 inconclusive, z3 unsat (not accepted alone)"
    try:
        os.remove(path)
    except OSError:
        pass
    return {"verdict": verdict, "model_text": out1 if verdict == "sat" else "", "seconds": max(s1, s2), "cvc5": v1, "z3": v2, "cvc5_s": round(s1, 2), "z3_s": round(s2, 2), "note": note, "raw": out1[-400:] if verdict in ("error", "unknown") else ""}
