"""Runs one SMT-LIB2 file through the cvc5 Python wheel (1.4.0) and prints the answers."""
import sys

import cvc5


def main() -> None:
    path, tlimit_ms = sys.argv[1], sys.argv[2]
    slv = cvc5.Solver()
    slv.setOption("strings-exp", "true")
    slv.setOption("tlimit-per", tlimit_ms)
    sm = cvc5.SymbolManager(slv)
    p = cvc5.InputParser(slv, sm)
    p.setFileInput(cvc5.InputLanguage.SMT_LIB_2_6, path)
    last = ""
    while True:
        c = p.nextCommand()
        if c.isNull():
            break
        name = c.getCommandName() if hasattr(c, "getCommandName") else ""
        if name == "get-model" and last != "sat":
            continue
        try:
            r = str(c.invoke(slv, sm)).strip()
        except Exception as e:  # noqa: BLE001
            r = f"(error \"{e}\")"
        if name == "check-sat":
            last = r
        if r:
            print(r)


main()
