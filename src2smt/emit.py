"""Engine Z, part 2: SMT-LIB2 (QF_SLIA) emission for digest pre-image obligations."""
from __future__ import annotations

from typing import Any

from .pe import PreImages, SymStr, SymVal, free_vars


def smt_str(s: str) -> str:
    out = []
    for ch in s:
        o = ord(ch)
        if ch == '"':
            out.append('""')
        elif 32 <= o < 127 and ch != "\\":
            out.append(ch)
        else:
            out.append("\\u{%x}" % o)
    return '"' + "".join(out) + '"'


def term(s: SymStr) -> str:
    parts = []
    for a in s.atoms:
        if a[0] == "lit":
            parts.append(smt_str(a[1]))
        elif a[0] == "len":
            parts.append(f"(str.from_int (str.len {term(a[1])}))")
        else:
            parts.append(val_term(a[1]))
    if not parts:
        return '""'
    if len(parts) == 1:
        return parts[0]
    return "(str.++ " + " ".join(parts) + ")"


def val_term(v: SymVal) -> str:
    # ints and bools are represented by their *rendering*: str(int) is a bijection between the
    # integers and the regular language -?(0|[1-9][0-9]*), str(bool) between {True, False} and the
    # two literals; so an Int / Bool variable is replaced, without loss, by a String variable
    # constrained to that language (unbounded length for ints).  This keeps every query in the
    # string theory and avoids str.from_int, on which both solvers time out.
    if v.kind in ("str", "hex", "fqn", "int", "bool"):
        return v.name
    if v.kind == "none":
        return '"None"'
    raise ValueError(v.kind)


def declare(v: SymVal, str_bound: int, hex_len: int) -> list[str]:
    if v.kind == "str" or v.kind == "fqn":
        return [f"(declare-const {v.name} String)", f"(assert (<= (str.len {v.name}) {str_bound}))"]
    if v.kind == "hex":
        return [
            f"(declare-const {v.name} String)",
            f'(assert (str.in_re {v.name} ((_ re.loop {hex_len} {hex_len}) (re.union (re.range "0" "9") (re.range "a" "f")))))',
        ]
    if v.kind == "int":
        return [
            f"(declare-const {v.name} String)",
            f'(assert (str.in_re {v.name} (re.++ (re.opt (str.to_re "-")) (re.union (str.to_re "0") (re.++ (re.range "1" "9") (re.* (re.range "0" "9")))))))',
            f'(assert (not (= {v.name} "-0")))',
        ]
    if v.kind == "bool":
        return [f"(declare-const {v.name} String)", f'(assert (or (= {v.name} "True") (= {v.name} "False")))']
    return []


def differs(a: SymVal, b: SymVal) -> str:
    """SMT condition "the two property values differ (value or type)"."""
    if a.kind != b.kind:
        return "true"
    if a.kind == "none":
        return "false"
    return f"(not (= {a.name} {b.name}))"


def query(
    left: PreImages,
    right: PreImages,
    which: str,
    *,
    content_differs: list[str],
    extra_equal: list[tuple[SymVal, SymVal]] = (),
    str_bound: int = 24,
    sanity: bool = False,
    extra_asserts: list[str] = (),
    also_declare: list[SymVal] = (),
) -> str:
    """pre_L = pre_R  and  (one of `content_differs` holds); `sanity` drops the disequality."""
    tl = left.content if which == "content" else left.ident
    tr = right.content if which == "content" else right.ident
    hex_len = 2 * int(left.digest_size)
    lines = ["(set-logic QF_SLIA)", "(set-option :produce-models true)"]
    seen = set()
    # also_declare: variables the disequality mentions although the pre-image does not (a property
    # the code under analysis left out of the digest): they must be part of the model
    for v in free_vars(tl) + free_vars(tr) + [x for pair in extra_equal for x in pair] + list(also_declare):
        if v.name in seen:
            continue
        seen.add(v.name)
        lines += declare(v, str_bound, hex_len)
    for a, b in extra_equal:
        if a.kind == b.kind and a.kind != "none":
            lines.append(f"(assert (= {a.name} {b.name}))")
    lines.extend(extra_asserts)
    lines.append(f"(assert (= {term(tl)} {term(tr)}))")
    if not sanity:
        conds = [c for c in content_differs if c != "false"]
        if not conds:
            lines.append("(assert false)")
        elif "true" not in conds:
            lines.append("(assert (or " + " ".join(conds) + "))" if len(conds) > 1 else f"(assert {conds[0]})")
    lines.append("(check-sat)")
    lines.append("(get-model)")
    return "\n".join(lines) + "\n"


def parse_model(text: str) -> dict[str, Any]:
    """Parse `(define-fun name () Sort value)` lines of a get-model answer."""
    import re

    out: dict[str, Any] = {}
    for m in re.finditer(r"\(define-fun\s+(\S+)\s+\(\)\s+(String|Int|Bool)\s+(.*?)\)\s*(?=\(define-fun|\)\s*$|$)", text, flags=re.S):
        name, sort, raw = m.group(1), m.group(2), m.group(3).strip()
        if sort == "String":
            out[name] = _unescape(raw)
        elif sort == "Int":
            raw = raw.replace("(", "").replace(")", "").replace(" ", "")
            out[name] = int(raw)
        else:
            out[name] = raw == "true"
    return out


def _unescape(raw: str) -> str:
    import re

    assert raw.startswith('"') and raw.endswith('"'), raw
    body = raw[1:-1].replace('""', '"')
    body = re.sub(r"\\u\{([0-9a-fA-F]+)\}", lambda m: chr(int(m.group(1), 16)), body)
    body = re.sub(r"\\u([0-9a-fA-F]{4})", lambda m: chr(int(m.group(1), 16)), body)
    return body
