"""Engine Z, part 1: a partial evaluator over the Python AST of ASTNode.__post_init__.

The function source is re-read from /repo on every run.  Everything concrete is
evaluated by real Python in the real module namespace.  `self` is an abstract
node of a concrete model class whose property values are typed SMT variables and
whose children are abstract references; the real generated accessors answer
get_properties / get_child_nodes_with_field on a skeleton instance, so field
order, sort_keys, skip flags and index numbering come from the current code.
String building (f-strings, +, +=, str(), type(), !s) is turned into a list of
atoms; hashlib.blake2b(X.encode("utf-8"), ...).hexdigest() is recorded as H(X).
Any other construct touching a symbolic operand raises Unencodable.
"""
from __future__ import annotations

import ast
import inspect
import textwrap
from dataclasses import dataclass, field
from typing import Any


class Unencodable(Exception):
    def __init__(self, msg: str, node: ast.AST | None = None):
        line = getattr(node, "lineno", "?")
        super().__init__(f"{msg} (source line {line} of __post_init__)")


class _Stop(Exception):
    """Raised when evaluation reaches the registry part (both pre-images are known)."""


class _Return(Exception):
    def __init__(self, value: Any):
        super().__init__("return")
        self.value = value


@dataclass(frozen=True)
class SymVal:
    """A typed symbolic property value / child attribute.  kind: str|int|bool|none|hex|fqn"""

    name: str
    kind: str
    const: Any = None  # for kind == "none"


@dataclass
class SymStr:
    """A string expression: list of atoms ("lit", text) | ("val", SymVal)."""

    atoms: list[tuple[str, Any]] = field(default_factory=list)

    def __add__(self, other: Any) -> "SymStr":
        return SymStr(_norm(self.atoms + _atoms(other)))

    def __radd__(self, other: Any) -> "SymStr":
        return SymStr(_norm(_atoms(other) + self.atoms))


def _atoms(x: Any) -> list[tuple[str, Any]]:
    if isinstance(x, SymStr):
        return list(x.atoms)
    if isinstance(x, str):
        return [("lit", x)] if x else []
    if isinstance(x, SymLen):
        return [("len", x.of)]
    raise Unencodable(f"cannot concatenate {type(x).__name__} to a symbolic string")


def _norm(atoms: list[tuple[str, Any]]) -> list[tuple[str, Any]]:
    out: list[tuple[str, Any]] = []
    for a in atoms:
        if a[0] == "lit" and out and out[-1][0] == "lit":
            out[-1] = ("lit", out[-1][1] + a[1])
        elif a[0] == "lit" and a[1] == "":
            continue
        else:
            out.append(a)
    return out


@dataclass
class SymLen:
    """len() of a symbolic string; renders as a decimal number."""

    of: SymStr


@dataclass
class SymBytes:
    s: SymStr


@dataclass
class HashObj:
    pre: SymStr
    digest_size: Any


@dataclass
class HashVal:
    pre: SymStr
    digest_size: Any


_PY_TYPE = {"str": str, "int": int, "bool": bool, "none": type(None)}


class EnvTwin:
    """Environment: the node NODE_REGISTRY holds under the (symbolic) id that is being computed.
    Nothing is known about it except that its id equals the key; whether it is of the same class
    as `self` is another environment decision.  Its content_id is the digest that node computed
    for its own content (TwinContent) -- the obligation built from it asks the solver whether a
    node with the same id pre-image can have another content pre-image."""

    def __init__(self, key: Any):
        self.key = key


class EnvMiss:
    """Environment: the registry holds nothing under the key (behaves like None)."""


class TwinContent:
    """content_id of the EnvTwin."""


ENV_MISS = EnvMiss()


def sym_to_str(v: SymVal) -> SymStr:
    if v.kind == "none":
        return SymStr([("lit", "None")])
    return SymStr([("val", v)])


class AbsOrigin:
    def __init__(self, fqn: SymVal):
        self.fqn = fqn


class AbsChild:
    def __init__(self, tag: str):
        self.content_id = SymVal(f"{tag}_cid", "hex")
        self.origin = AbsOrigin(SymVal(f"{tag}_ofqn", "fqn"))


class AbsSelf:
    """The node under construction: concrete class, symbolic content."""

    def __init__(self, cls: type, skeleton: Any, props: dict[str, SymVal], tag: str):
        self.cls = cls
        self.skeleton = skeleton
        self.props = props
        self.tag = tag
        self.origin = AbsOrigin(SymVal(f"{tag}_self_ofqn", "fqn"))
        self.children: dict[tuple[str, int | None], AbsChild] = {}
        self.recorded: dict[str, Any] = {}
        self.calls: list[str] = []

    # the real generated accessors answer, on the skeleton
    def get_properties(self, *a: Any, **kw: Any) -> list[tuple[Any, Any]]:
        self.calls.append(f"get_properties{a}{sorted(kw.items())}")
        out = []
        for val, f in self.skeleton.get_properties(*a, **kw):
            out.append((self.props[f.name] if f.name in self.props else val, f))
        return out

    def get_child_nodes_with_field(self, *a: Any, **kw: Any) -> list[tuple[Any, Any, Any]]:
        self.calls.append(f"get_child_nodes_with_field{a}{sorted(kw.items())}")
        out = []
        for _c, f, i in self.skeleton.get_child_nodes_with_field(*a, **kw):
            key = (f.name, i)
            if key not in self.children:
                self.children[key] = AbsChild(f"{self.tag}_{f.name}_{'s' if i is None else i}")
            out.append((self.children[key], f, i))
        return out


class _ClassProxy:
    def __init__(self, cls: type):
        self.__name__ = cls.__name__
        self._cls = cls


class Evaluator:
    def __init__(self, func: Any, self_obj: AbsSelf, overrides: dict[str, Any] | None = None):
        src = textwrap.dedent(inspect.getsource(func))
        self.tree = ast.parse(src).body[0]
        assert isinstance(self.tree, ast.FunctionDef)
        self.globals = dict(func.__globals__)
        self.globals.update(overrides or {})
        self.env: dict[str, Any] = {"self": self_obj}
        self.self_obj = self_obj
        self.constructs: set[str] = set()
        self.assumed: list[str] = []
        self.inlined: list[str] = []
        self.depth = 0
        # environment decisions (registry lookups under a symbolic key): answered from `oracle`
        # in order, False beyond its end; env_touch counts evaluations that met an env value
        self.oracle: list[bool] = []
        self.env_trace: list[tuple[str, bool]] = []
        self.env_touch = 0

    # ------------------------------------------------------------------ run
    def run(self) -> None:
        try:
            for st in self.tree.body:
                self.stmt(st)
        except _Stop:
            pass

    def stmt(self, n: ast.stmt) -> None:
        self.constructs.add(type(n).__name__)
        if isinstance(n, ast.Expr):
            self.expr(n.value)
        elif isinstance(n, ast.Assign):
            val = self.expr(n.value)
            for t in n.targets:
                self.assign(t, val)
        elif isinstance(n, ast.AnnAssign):
            if n.value is not None:
                self.assign(n.target, self.expr(n.value))
        elif isinstance(n, ast.AugAssign):
            if not isinstance(n.op, ast.Add):
                raise Unencodable("augmented assignment other than +=", n)
            cur = self.expr(_load(n.target))
            if type(cur) is list:
                more = self.expr(n.value)
                if self._symbolic(more):
                    raise Unencodable("list extended by a symbolic iterable", n)
                cur.extend(more)  # in place, like the real +=
            else:
                self.assign(n.target, self.add(cur, self.expr(n.value), n))
        elif isinstance(n, ast.If):
            touched = self.env_touch
            test = self.expr(n.test)
            if isinstance(test, (EnvMiss,)):
                test = None
            if self.env_touch > touched and "content_id" in self.self_obj.recorded and isinstance(self.env.get("new_id"), HashVal):
                # registry-dependent branching after both pre-images are known: the id suffix logic
                self.self_obj.recorded["id"] = self.env["new_id"]
                raise _Stop()
            if self._symbolic(test):
                if "content_id" in self.self_obj.recorded and isinstance(self.env.get("new_id"), HashVal):
                    self.self_obj.recorded["id"] = self.env["new_id"]
                    raise _Stop()
                raise Unencodable("branch on a symbolic value", n)
            for st in (n.body if test else n.orelse):
                self.stmt(st)
        elif isinstance(n, ast.For):
            it = self.expr(n.iter)
            if self._symbolic(it):
                raise Unencodable("loop over a symbolic iterable", n)
            for item in list(it):
                self.assign(n.target, item)
                for st in n.body:
                    self.stmt(st)
        elif isinstance(n, ast.Return):
            raise _Return(self.expr(n.value) if n.value is not None else None)
        elif isinstance(n, ast.Try):
            # assumption (recorded in the evidence): no exception is raised on the encoded path, so
            # only the try body (and the else / finally blocks) is followed
            self.assumed.append(f"no exception in the try block at source line {n.lineno}")
            for st in n.body + n.orelse + n.finalbody:
                self.stmt(st)
        elif isinstance(n, ast.Raise):
            raise Unencodable("raise reached on the encoded path", n)
        elif isinstance(n, ast.Pass):
            pass
        else:
            raise Unencodable(f"statement {type(n).__name__}", n)

    def assign(self, target: ast.expr, val: Any) -> None:
        if isinstance(target, ast.Name):
            self.env[target.id] = val
        elif isinstance(target, ast.Tuple):
            vals = list(val)
            if len(vals) != len(target.elts):
                raise Unencodable("tuple unpacking arity", target)
            for t, v in zip(target.elts, vals):
                self.assign(t, v)
        else:
            raise Unencodable(f"assignment target {type(target).__name__}", target)

    # ----------------------------------------------------------- expressions
    def decide(self, question: str) -> bool:
        k = len(self.env_trace)
        ans = self.oracle[k] if k < len(self.oracle) else False
        self.env_trace.append((question, ans))
        self.env_touch += 1
        return ans

    @staticmethod
    def _is_registry(obj: Any) -> bool:
        try:
            from pyoak.node import NODE_REGISTRY
        except Exception:  # noqa: BLE001
            return False
        return obj is NODE_REGISTRY

    def _lookup(self, key: Any) -> Any:
        if self.decide("the registry holds a node under the id being computed"):
            return EnvTwin(key)
        return ENV_MISS

    def _symbolic(self, v: Any) -> bool:
        return isinstance(v, (SymVal, SymStr, SymLen, SymBytes, HashObj, HashVal, AbsSelf, AbsChild, AbsOrigin, _SymTest))

    def add(self, a: Any, b: Any, n: ast.AST) -> Any:
        if isinstance(a, (SymStr,)) or isinstance(b, (SymStr,)):
            try:
                return (a if isinstance(a, SymStr) else SymStr(_atoms(a))) + b
            except Unencodable as e:
                raise Unencodable(str(e), n) from None
        if self._symbolic(a) or self._symbolic(b):
            raise Unencodable("+ on a symbolic non-string", n)
        return a + b

    def expr(self, n: ast.expr) -> Any:
        self.constructs.add(type(n).__name__)
        if isinstance(n, ast.Constant):
            return n.value
        if isinstance(n, ast.Name):
            if n.id in self.env:
                if isinstance(self.env[n.id], (EnvTwin, EnvMiss, TwinContent)):
                    self.env_touch += 1
                return self.env[n.id]
            if n.id in self.globals:
                return self.globals[n.id]
            import builtins

            if hasattr(builtins, n.id):
                return getattr(builtins, n.id)
            raise Unencodable(f"unknown name {n.id}", n)
        if isinstance(n, ast.JoinedStr):
            out = SymStr([])
            for part in n.values:
                if isinstance(part, ast.Constant):
                    out = out + str(part.value)
                else:
                    assert isinstance(part, ast.FormattedValue)
                    if part.format_spec is not None:
                        raise Unencodable("format spec in f-string", n)
                    v = self.expr(part.value)
                    out = out + self.to_str(v, part.conversion, n)
            if all(a[0] == "lit" for a in out.atoms):
                return "".join(a[1] for a in out.atoms)
            return out
        if isinstance(n, ast.BinOp):
            if isinstance(n.op, ast.Add):
                return self.add(self.expr(n.left), self.expr(n.right), n)
            left, right = self.expr(n.left), self.expr(n.right)
            if self._symbolic(left) or self._symbolic(right):
                raise Unencodable(f"operator {type(n.op).__name__} on a symbolic value", n)
            return _BINOPS[type(n.op)](left, right)
        if isinstance(n, ast.BoolOp):
            vals = []
            for v in n.values:
                x = self.expr(v)
                if self._symbolic(x):
                    raise Unencodable("boolean operator on a symbolic value", n)
                vals.append(x)
                if isinstance(n.op, ast.Or) and x:
                    return x
                if isinstance(n.op, ast.And) and not x:
                    return x
            return vals[-1]
        if isinstance(n, ast.UnaryOp):
            v = self.expr(n.operand)
            if self._symbolic(v):
                raise Unencodable("unary operator on a symbolic value", n)
            return {ast.Not: lambda x: not x, ast.USub: lambda x: -x, ast.UAdd: lambda x: +x}[type(n.op)](v)
        if isinstance(n, ast.Compare):
            left = self.expr(n.left)
            rights = [self.expr(c) for c in n.comparators]
            if len(rights) == 1 and isinstance(n.ops[0], (ast.In, ast.NotIn)) and self._is_registry(rights[0]) and isinstance(left, (HashVal, SymStr)) and "content_id" not in self.self_obj.recorded:
                hit = self.decide("the registry holds a node under the id being computed")
                return hit if isinstance(n.ops[0], ast.In) else not hit
            left = None if isinstance(left, EnvMiss) else left
            rights = [None if isinstance(r, EnvMiss) else r for r in rights]
            if any(isinstance(x, (HashVal, SymStr, SymVal)) for x in [left, *rights]):
                return _SymTest()
            res = True
            cur = left
            for op, r in zip(n.ops, rights):
                res = res and _CMP[type(op)](cur, r)
                cur = r
            return res
        if isinstance(n, ast.Attribute):
            base = self.expr(n.value)
            return self.getattr(base, n.attr, n)
        if isinstance(n, ast.Call):
            return self.call(n)
        if isinstance(n, ast.Tuple):
            return tuple(self.expr(e) for e in n.elts)
        if isinstance(n, ast.List):
            return [self.expr(e) for e in n.elts]
        if isinstance(n, ast.Dict):
            return {self.expr(k): self.expr(v) for k, v in zip(n.keys, n.values) if k is not None}
        if isinstance(n, (ast.ListComp, ast.GeneratorExp, ast.SetComp, ast.DictComp)):
            return self.comprehension(n)
        if isinstance(n, ast.IfExp):
            test = self.expr(n.test)
            if self._symbolic(test):
                raise Unencodable("conditional expression on a symbolic value", n)
            return self.expr(n.body if test else n.orelse)
        if isinstance(n, ast.Starred):
            raise Unencodable("starred expression", n)
        if isinstance(n, ast.Subscript):
            base = self.expr(n.value)
            if self._symbolic(base):
                raise Unencodable("subscript of a symbolic value", n)
            key = self.expr(n.slice)
            if self._is_registry(base) and isinstance(key, (HashVal, SymStr)):
                # a subscript is only reached where the code already established the hit
                self.env_touch += 1
                return EnvTwin(key)
            return base[key]
        raise Unencodable(f"expression {type(n).__name__}", n)

    def comprehension(self, n: Any) -> Any:
        """List / generator / set / dict comprehensions over concrete iterables (whose items may
        be symbolic): unrolled.  Generator expressions are evaluated eagerly into a list, which is
        equivalent on the encoded path (no exception, no early exit of the consumer)."""
        out: list[Any] = []
        saved = dict(self.env)

        def rec(k: int) -> None:
            if k == len(n.generators):
                if isinstance(n, ast.DictComp):
                    out.append((self.expr(n.key), self.expr(n.value)))
                else:
                    out.append(self.expr(n.elt))
                return
            g = n.generators[k]
            if g.is_async:
                raise Unencodable("async comprehension", n)
            it = self.expr(g.iter)
            if self._symbolic(it):
                raise Unencodable("comprehension over a symbolic iterable", n)
            for item in list(it):
                self.assign(g.target, item)
                ok = True
                for cond in g.ifs:
                    c = self.expr(cond)
                    if self._symbolic(c):
                        raise Unencodable("comprehension filter on a symbolic value", n)
                    if not c:
                        ok = False
                        break
                if ok:
                    rec(k + 1)

        try:
            rec(0)
        finally:
            # comprehension variables are local to the comprehension
            self.env.clear()
            self.env.update(saved)
        if isinstance(n, ast.DictComp):
            return dict(out)
        if isinstance(n, ast.SetComp):
            if any(self._symbolic(x) for x in out):
                raise Unencodable("set of symbolic values", n)
            return set(out)
        return out

    def to_str(self, v: Any, conversion: int, n: ast.AST) -> Any:
        if isinstance(v, SymVal):
            if conversion not in (-1, ord("s")):
                raise Unencodable("!r / !a conversion of a symbolic value", n)
            return sym_to_str(v)
        if isinstance(v, SymStr):
            return v
        if isinstance(v, SymLen):
            return SymStr([("len", v.of)])
        if isinstance(v, HashVal):
            raise Unencodable("digest rendered into another digest input", n)
        if self._symbolic(v):
            raise Unencodable(f"str() of {type(v).__name__}", n)
        if conversion == ord("r"):
            return repr(v)
        if conversion == ord("a"):
            return ascii(v)
        return str(v)

    def getattr(self, base: Any, attr: str, n: ast.AST) -> Any:
        if isinstance(base, EnvMiss):
            raise Unencodable(f"attribute {attr} of a registry miss (None)", n)
        if isinstance(base, EnvTwin):
            self.env_touch += 1
            if attr == "__class__":
                if not hasattr(base, "same_class"):
                    base.same_class = self.decide("the registered node is of the class under construction")
                return self.getattr(self.self_obj, "__class__", n) if base.same_class else _ClassProxy(object)
            if attr == "content_id":
                return TwinContent()
            if attr == "id":
                return base.key
            raise Unencodable(f"attribute {attr} of the registered node is not modelled", n)
        if isinstance(base, AbsSelf):
            if attr == "__class__":
                if not hasattr(base, "_proxy"):
                    base._proxy = _ClassProxy(base.cls)
                return base._proxy
            if attr in ("get_properties", "get_child_nodes_with_field"):
                return getattr(base, attr)
            if attr == "origin":
                return base.origin
            if attr in base.recorded:
                return base.recorded[attr]
            raise Unencodable(f"self.{attr} is not modelled", n)
        if isinstance(base, (AbsChild, AbsOrigin)):
            if hasattr(base, attr):
                return getattr(base, attr)
            raise Unencodable(f"{type(base).__name__}.{attr} is not modelled", n)
        if isinstance(base, SymStr) and attr == "encode":
            return ("__encode__", base)
        if isinstance(base, HashObj) and attr == "hexdigest":
            return ("__hexdigest__", base)
        if self._symbolic(base):
            raise Unencodable(f"attribute {attr} of {type(base).__name__}", n)
        return getattr(base, attr)

    def call(self, n: ast.Call) -> Any:
        fn = self.expr(n.func)
        args = [self.expr(a) for a in n.args]
        kwargs = {k.arg: self.expr(k.value) for k in n.keywords if k.arg is not None}
        if isinstance(fn, tuple) and fn and fn[0] == "__encode__":
            enc = args[0] if args else kwargs.get("encoding", "utf-8")
            errors = args[1] if len(args) > 1 else kwargs.get("errors", "strict")
            if str(enc).lower().replace("_", "-") not in ("utf-8", "utf8"):
                raise Unencodable("encode with an encoding other than utf-8", n)
            if errors not in ("strict", "surrogatepass"):
                # replace / ignore / backslashreplace / xmlcharrefreplace are not injective: the assumption
                # "the encoding step is injective" no longer holds, so nothing can be concluded from the term
                raise Unencodable(f"encode with the non-injective error handler {errors!r}", n)
            return SymBytes(fn[1])
        if isinstance(fn, tuple) and fn and fn[0] == "__hexdigest__":
            return HashVal(fn[1].pre, fn[1].digest_size)
        import hashlib

        if getattr(fn, "__name__", "") == "get" and self._is_registry(getattr(fn, "__self__", None)) and args and isinstance(args[0], (HashVal, SymStr)):
            hit = self._lookup(args[0])
            if isinstance(hit, EnvMiss) and len(args) > 1 and args[1] is not None:
                return args[1]
            return hit
        if fn is type and len(args) == 1 and isinstance(args[0], EnvTwin):
            return self.getattr(args[0], "__class__", n)
        if fn is isinstance and len(args) == 2 and isinstance(args[0], (EnvTwin, EnvMiss)):
            if isinstance(args[0], EnvMiss):
                return False
            proxy = self.getattr(args[0], "__class__", n)
            return proxy is self.getattr(self.self_obj, "__class__", n) and args[1] is proxy
        if fn is hashlib.blake2b or getattr(fn, "__name__", "") == "blake2b":
            if len(args) == 1 and isinstance(args[0], SymBytes):
                return HashObj(args[0].s, kwargs.get("digest_size"))
            if args and isinstance(args[0], bytes):
                # fully concrete pre-image (a node without symbolic parts)
                return HashObj(SymStr(_atoms(args[0].decode("utf-8"))), kwargs.get("digest_size"))
            raise Unencodable("blake2b call shape", n)
        if fn is type and len(args) == 1 and isinstance(args[0], SymVal):
            if args[0].kind not in _PY_TYPE:
                raise Unencodable(f"type() of symbolic {args[0].kind}", n)
            return _PY_TYPE[args[0].kind]
        if fn is isinstance and len(args) == 2 and isinstance(args[0], SymVal):
            # the Python type of a symbolic property value is concrete (its kind)
            if args[0].kind not in _PY_TYPE or self._symbolic(args[1]):
                raise Unencodable(f"isinstance() of symbolic {args[0].kind}", n)
            return issubclass(_PY_TYPE[args[0].kind], args[1])
        if fn is str and len(args) == 1 and isinstance(args[0], (SymVal, SymStr, SymLen)):
            return self.to_str(args[0], -1, n)
        if fn is len and len(args) == 1 and isinstance(args[0], SymStr):
            return SymLen(args[0])
        if fn is object.__setattr__ and len(args) == 3 and isinstance(args[0], AbsSelf):
            args[0].recorded[args[1]] = args[2]
            if args[1] == "content_id":
                args[0].recorded["__env_at_content_id__"] = len(self.env_trace)
            return None
        owner = getattr(fn, "__self__", None)
        if getattr(fn, "__name__", "") == "join" and isinstance(owner, str) and len(args) == 1 and not kwargs and not self._symbolic(args[0]):
            parts = list(args[0])
            if any(isinstance(x, (SymStr, SymLen)) for x in parts):
                out = SymStr([])
                for k, part in enumerate(parts):
                    if k:
                        out = out + owner
                    if isinstance(part, SymVal) or (self._symbolic(part) and not isinstance(part, (SymStr, SymLen))):
                        raise Unencodable("str.join of a non-string symbolic value", n)
                    out = out + part
                return out
            if any(self._symbolic(x) for x in parts):
                raise Unencodable("str.join of a non-string symbolic value", n)
            return owner.join(parts)
        if isinstance(owner, (list, dict)) and type(owner) in (list, dict) and getattr(fn, "__name__", "") in ("append", "extend", "insert", "setdefault", "update", "get", "pop", "items", "keys", "values", "copy", "reverse", "clear", "__setitem__", "__getitem__"):
            # plain containers may hold symbolic values; the container operation itself is concrete
            if getattr(fn, "__name__", "") in ("extend", "update") and args and self._symbolic(args[0]):
                raise Unencodable("container extended by a symbolic iterable", n)
            if getattr(fn, "__name__", "") in ("get", "pop", "setdefault", "__getitem__", "__setitem__") and args and self._symbolic(args[0]) and isinstance(owner, dict):
                raise Unencodable("dict keyed by a symbolic value", n)
            return fn(*args, **kwargs)
        if fn in (list, tuple, reversed, enumerate, zip, iter) and args and not any(self._symbolic(a) for a in args):
            res = fn(*args, **kwargs)
            return list(res) if fn in (reversed, enumerate, zip, iter) else res
        if any(self._symbolic(a) for a in args) or any(self._symbolic(v) for v in kwargs.values()):
            target = getattr(fn, "__wrapped__", fn)  # functools wrappers (lru_cache ...): treated as pure
            import types as _types

            if isinstance(target, _types.FunctionType) and (target.__module__ or "").startswith("pyoak"):
                return self.inline(target, args, kwargs, n)
            raise Unencodable(f"call of {getattr(fn, '__name__', fn)!r} with a symbolic argument", n)
        import types as _types2

        target2 = getattr(fn, "__wrapped__", fn)
        if isinstance(target2, _types2.FunctionType) and (target2.__module__ or "").startswith("pyoak") and ({"blake2b", "hashlib"} & set(target2.__code__.co_names)):
            # a digest helper called on a fully concrete pre-image: still recorded as H(pre-image)
            return self.inline(target2, args, kwargs, n)
        return fn(*args, **kwargs)

    def inline(self, fn: Any, args: list[Any], kwargs: dict[str, Any], n: ast.AST) -> Any:
        """Evaluate a helper function of the library symbolically (refactorings that move part of the
        digest computation into a helper stay encodable).  Memoising wrappers are abstracted away."""
        if self.depth > 6:
            raise Unencodable("helper calls nested too deeply", n)
        try:
            src = textwrap.dedent(inspect.getsource(fn))
            tree = ast.parse(src).body[0]
            bound = inspect.signature(fn).bind(*args, **kwargs)
            bound.apply_defaults()
        except (OSError, TypeError, IndexError) as ex:
            raise Unencodable(f"cannot inline {fn.__name__}: {ex}", n) from None
        if not isinstance(tree, ast.FunctionDef):
            raise Unencodable(f"cannot inline {fn.__name__}", n)
        saved_env, saved_globals = self.env, self.globals
        self.env = dict(bound.arguments)
        self.globals = dict(fn.__globals__)
        self.depth += 1
        self.inlined.append(f"{fn.__module__}:{fn.__qualname__}")
        try:
            for st in tree.body:
                if isinstance(st, ast.Expr) and isinstance(st.value, ast.Constant) and isinstance(st.value.value, str):
                    continue  # docstring
                self.stmt(st)
            return None
        except _Return as r:
            return r.value
        finally:
            self.depth -= 1
            self.env, self.globals = saved_env, saved_globals


class _SymTest:
    """Result of comparing a symbolic value: only usable as an `if` test that stops evaluation."""


def _load(t: ast.expr) -> ast.expr:
    if isinstance(t, ast.Name):
        return ast.Name(id=t.id, ctx=ast.Load(), lineno=t.lineno, col_offset=t.col_offset)
    raise Unencodable("augmented assignment to a non-name", t)


_BINOPS = {ast.Sub: lambda a, b: a - b, ast.Mult: lambda a, b: a * b, ast.Mod: lambda a, b: a % b, ast.FloorDiv: lambda a, b: a // b}
_CMP = {
    ast.Eq: lambda a, b: a == b, ast.NotEq: lambda a, b: a != b, ast.Lt: lambda a, b: a < b, ast.LtE: lambda a, b: a <= b,
    ast.Gt: lambda a, b: a > b, ast.GtE: lambda a, b: a >= b, ast.Is: lambda a, b: a is b, ast.IsNot: lambda a, b: a is not b,
    ast.In: lambda a, b: a in b, ast.NotIn: lambda a, b: a not in b,
}


# ---------------------------------------------------------------------- API
@dataclass
class PreImages:
    cls: type
    tag: str
    props: dict[str, SymVal]
    children: dict[tuple[str, int | None], AbsChild]
    self_origin_fqn: SymVal
    content: SymStr
    ident: SymStr
    digest_size: Any
    accessor_calls: list[str]
    constructs: list[str]
    inlined: list[str] = field(default_factory=list)
    assumed: list[str] = field(default_factory=list)
    # registry lookups met before content_id was assigned, and what content_id then is:
    # "own" (digest of this node's content pre-image) | "twin" (copied from the registered node
    # found under this node's id, of the same class) | "unknown"
    env_trace: list[tuple[str, bool]] = field(default_factory=list)
    content_kind: str = "own"


def preimage_variants(cls: type, skeleton: Any, kinds: dict[str, str], tag: str, max_runs: int = 16) -> list[PreImages]:
    """One PreImages per answer vector of the environment (registry) decisions that the code
    consults before it assigns content_id; a single element when it consults none."""
    out: list[PreImages] = []
    stack: list[list[bool]] = [[]]
    while stack and len(out) < max_runs:
        oracle = stack.pop()
        p = preimages(cls, skeleton, kinds, tag, oracle=oracle)
        out.append(p)
        for k in range(len(oracle), len(p.env_trace)):
            if p.env_trace[k][1] is False:
                stack.append([a for _, a in p.env_trace[:k]] + [True])
    return out


def preimages(cls: type, skeleton: Any, kinds: dict[str, str], tag: str, oracle: list[bool] | None = None) -> PreImages:
    """Symbolically evaluate the CURRENT ASTNode.__post_init__ for class `cls`.

    skeleton: a real instance of cls with the wanted child layout (children present /
    absent, tuple lengths); kinds: property name -> str|int|bool|none."""
    from pyoak import config
    from pyoak.node import ASTNode

    props = {name: SymVal(f"{tag}_{name}", kind) for name, kind in kinds.items()}
    me = AbsSelf(cls, skeleton, props, tag)

    class _Cfg:
        RUNTIME_TYPE_CHECK = False
        ID_DIGEST_SIZE = config.ID_DIGEST_SIZE
        TRACE_LOGGING = False
        CODEGEN_DEBUG = False

    ev = Evaluator(ASTNode.__post_init__, me, overrides={"config": _Cfg})
    ev.oracle = list(oracle or [])
    # decisions taken before content_id is assigned are what the content digest can depend on
    orig_setattr_seen: list[int] = []
    ev.run()
    if "content_id" not in me.recorded or "id" not in me.recorded:
        raise Unencodable("evaluation ended before both digests were assigned")
    cid, nid = me.recorded["content_id"], me.recorded["id"]
    if not isinstance(nid, HashVal):
        raise Unencodable("id is not the digest of an encodable pre-image")
    _ = orig_setattr_seen
    if isinstance(cid, HashVal):
        kind, content, size = "own", cid.pre, cid.digest_size
    elif isinstance(cid, TwinContent):
        kind, content, size = "twin", SymStr([]), nid.digest_size
    elif oracle is not None and ev.env_trace:
        kind, content, size = "unknown", SymStr([]), nid.digest_size
    else:
        raise Unencodable("content_id is not the digest of an encodable pre-image")
    pre_trace = list(ev.env_trace[: me.recorded.get("__env_at_content_id__", len(ev.env_trace))])
    return PreImages(cls, tag, props, dict(me.children), me.origin.fqn, content, nid.pre, size, list(me.calls), sorted(ev.constructs), list(dict.fromkeys(ev.inlined)), list(dict.fromkeys(ev.assumed)), pre_trace, kind)


def free_vars(s: SymStr) -> list[SymVal]:
    seen: dict[str, SymVal] = {}
    for a in s.atoms:
        if a[0] == "val":
            seen.setdefault(a[1].name, a[1])
        elif a[0] == "len":
            for v in free_vars(a[1]):
                seen.setdefault(v.name, v)
    return list(seen.values())


def evaluate(s: SymStr, values: dict[str, Any]) -> str:
    """Substitute concrete values (translator validation)."""
    out = []
    for a in s.atoms:
        if a[0] == "lit":
            out.append(a[1])
        elif a[0] == "len":
            out.append(str(len(evaluate(a[1], values))))
        else:
            out.append(str(values[a[1].name]))
    return "".join(out)
