"""Generation of node class hierarchies from recipes (C12).

A hierarchy recipe is a tuple of levels; a level is a tuple of (name, kind).
Classes are created by exec of generated source text in a fresh module that is
registered in sys.modules (so that postponed annotations resolve).
"""
from __future__ import annotations

import sys
import types
from typing import Any

# kind -> (annotation, default expression or None, is_child, compare, init, collection)
KINDS: dict[str, dict[str, Any]] = {
    "p": dict(ann="int", rhs="{d}", child=False, compare=True, init=True),
    "pnc": dict(ann="int", rhs="field(default={d}, compare=False)", child=False, compare=False, init=True),
    "pni": dict(ann="int", rhs="field(default={d}, init=False)", child=False, compare=True, init=False),
    "pninc": dict(ann="int", rhs="field(default={d}, init=False, compare=False)", child=False, compare=False, init=False),
    "pkw": dict(ann="str", rhs="field(default='kw{d}', kw_only=True)", child=False, compare=True, init=True),
    "cs": dict(ann="VBase", rhs="field(kw_only=True)", child=True, coll=False, required=True),
    "co": dict(ann="VBase | None", rhs="None", child=True, coll=False),
    "cu": dict(ann="VLeaf | VFalsy | None", rhs="None", child=True, coll=False),
    "ct": dict(ann="tuple[VBase, ...]", rhs="()", child=True, coll=True),
    # child fields that are no constructor arguments (always absent / empty here; a class may fill them itself)
    "coni": dict(ann="VBase | None", rhs="field(default=None, init=False)", child=True, coll=False),
    "ctni": dict(ann="tuple[VBase, ...]", rhs="field(default=(), init=False)", child=True, coll=True),
    "cf": dict(ann="tuple[VLeaf, VBase]", rhs="field(kw_only=True)", child=True, coll=True, required=True),
}

_COUNTER = [0]


def flatten(levels: tuple) -> list[tuple[str, str]]:
    """Dataclass field order of the most derived class (user fields only): an
    overriding field keeps the position of the field it overrides."""
    order: list[str] = []
    kind: dict[str, str] = {}
    for lvl in levels:
        for name, k in lvl:
            if name not in kind:
                order.append(name)
            kind[name] = k
    return [(n, kind[n]) for n in order]


def source(levels: tuple, postponed: bool, tag: str) -> tuple[str, list[str]]:
    lines = []
    if postponed:
        lines.append("from __future__ import annotations")
    lines += [
        "from dataclasses import dataclass, field",
        "from pyoak.node import ASTNode",
        "from models.zoo import VBase, VLeaf, VFalsy",
        "",
    ]
    names = []
    base = "ASTNode"
    d = 0
    for li, lvl in enumerate(levels):
        cname = f"G{tag}L{li + 1}"
        names.append(cname)
        lines.append("@dataclass(frozen=True)")
        lines.append(f"class {cname}({base}):")
        if not lvl:
            lines.append("    pass")
        for name, k in lvl:
            d += 1
            spec = KINDS[k]
            lines.append(f"    {name}: {spec['ann']} = {spec['rhs'].format(d=d)}")
        lines.append("")
        base = cname
    return "\n".join(lines), names


def make_classes(levels: tuple, postponed: bool) -> list[type]:
    _COUNTER[0] += 1
    tag = f"{_COUNTER[0]}x{'p' if postponed else 'n'}"
    src, names = source(levels, postponed, tag)
    modname = f"vgen_{tag}"
    mod = types.ModuleType(modname)
    sys.modules[modname] = mod
    mod.__dict__["__source__"] = src
    exec(compile(src, modname, "exec", dont_inherit=True), mod.__dict__)
    return [mod.__dict__[n] for n in names]


def prop_defaults(levels: tuple) -> dict[str, Any]:
    """Default value of each property field as the generated source spells it."""
    out: dict[str, Any] = {}
    d = 0
    for lvl in levels:
        for name, k in lvl:
            d += 1
            if not KINDS[k]["child"]:
                out[name] = f"kw{d}" if k == "pkw" else d
            else:
                out.pop(name, None)
    return out


# ------------------------------------------------- multiple inheritance / empty bodies
MI_SOURCE = '''
from dataclasses import dataclass, field
from models.zoo import VBase
from pyoak.origin import NO_ORIGIN, Origin

@dataclass(frozen=True)
class MNamed{tag}(VBase):
    name_kid: VBase | None = None
    label: int = 0

@dataclass(frozen=True)
class MBodied{tag}(VBase):
    body: tuple[VBase, ...] = ()
    flag: int = field(default=1, compare=False)

@dataclass(frozen=True)
class MFunc{tag}(MNamed{tag}, MBodied{tag}):
    pass

@dataclass(frozen=True)
class MEmpty{tag}(MNamed{tag}):
    pass

@dataclass(frozen=True)
class MOverride{tag}(MNamed{tag}):
    label: int = field(default=5, compare=False)
    name_kid: VBase | None = None

# a plain (non-node) dataclass mixin that contributes child fields to a node class with an empty body
@dataclass(frozen=True)
class _PlainExtras{tag}:
    extras: tuple[VBase, ...] = ()
    note_kid: VBase | None = None

@dataclass(frozen=True)
class MRich{tag}(MNamed{tag}, _PlainExtras{tag}):
    pass

# quoted (string) annotations interleaved with evaluated ones, no postponed evaluation in this module
@dataclass(frozen=True)
class MQuoted{tag}(VBase):
    left: "VBase | None" = None
    op: VBase | None = None
    right: "tuple[VBase, ...]" = ()
    extra: tuple[VBase, ...] = ()
    q: "int" = 0
    p: int = 1

# a class that re-declares the built-in `origin` field (e.g. to give synthesized nodes a default
# origin of their own) and one that re-declares it and adds a property after it
@dataclass(frozen=True)
class MOrigin{tag}(MNamed{tag}):
    origin: Origin = field(default=NO_ORIGIN, kw_only=True)
    tail: int = 3

class _Ann{tag}:
    # a plain (non-dataclass) base that merely annotates names the node class declares later
    aname: int
    atail: "VBase | None"

@dataclass(frozen=True)
class MAnnBase{tag}(VBase, _Ann{tag}):
    aflag: int = 0
    ahead: VBase | None = None
    aname: int = 0
    aitems: tuple[VBase, ...] = ()
    atail: VBase | None = None
    aweight: int = 0
'''
# expected user-field order (dataclass rule: bases in reverse MRO, overriding keeps position)
MI_FIELDS = {
    "MNamed": [("name_kid", "co"), ("label", "p")],
    "MBodied": [("body", "ct"), ("flag", "pnc")],
    "MFunc": [("body", "ct"), ("flag", "pnc"), ("name_kid", "co"), ("label", "p")],
    "MEmpty": [("name_kid", "co"), ("label", "p")],
    "MOverride": [("name_kid", "co"), ("label", "pnc")],
    "MRich": [("extras", "ct"), ("note_kid", "co"), ("name_kid", "co"), ("label", "p")],
    "MQuoted": [("left", "co"), ("op", "co"), ("right", "ct"), ("extra", "ct"), ("q", "p"), ("p", "p")],
    "MOrigin": [("name_kid", "co"), ("label", "p"), ("tail", "p")],
    "MAnnBase": [("aflag", "p"), ("ahead", "co"), ("aname", "p"), ("aitems", "ct"), ("atail", "co"), ("aweight", "p")],
}


def make_mi_classes() -> tuple[str, dict[str, type]]:
    _COUNTER[0] += 1
    tag = f"{_COUNTER[0]}"
    modname = f"vgen_mi_{tag}"
    mod = types.ModuleType(modname)
    sys.modules[modname] = mod
    exec(compile(MI_SOURCE.format(tag=tag), modname, "exec", dont_inherit=True), mod.__dict__)
    return tag, {k: mod.__dict__[f"{k}{tag}"] for k in MI_FIELDS}
