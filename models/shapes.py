"""Bounded enumeration of tree recipes over the model zoo (selector space)."""
from __future__ import annotations

from functools import lru_cache
from typing import Any, Iterator

from .zoo import R


def _compositions(n: int, k: int) -> Iterator[tuple[int, ...]]:
    """All ways to write n as an ordered sum of k positive ints."""
    if k == 0:
        if n == 0:
            yield ()
        return
    if k == 1:
        if n >= 1:
            yield (n,)
        return
    for first in range(1, n - k + 2):
        for rest in _compositions(n - first, k - 1):
            yield (first, *rest)


@lru_cache(maxsize=None)
def shapes(n: int, depth: int, width: int = 3, rich: bool = True) -> tuple[Any, ...]:
    """All recipes with exactly n nodes and depth <= depth (root at depth 0).

    Leaves are VLeaf (VSubLeaf for size-1 subtrees in one production, to have a
    subclass in the mix).  Property values are filled in later by `number`.
    """
    out: list[Any] = []
    if n == 1:
        out.append(R("VLeaf"))
        if rich:
            out.append(R("VSubLeaf"))
        return tuple(out)
    if depth == 0:
        return ()
    sub = lambda m: shapes(m, depth - 1, width, False)  # noqa: E731
    # required single child
    for c in sub(n - 1):
        out.append(R("VReq", child=c))
    # optional union child (leaf only by its annotation)
    if n == 2:
        out.append(R("VOne", one=R("VLeaf")))
        out.append(R("VOne", one=R("VStr2")))
    # variadic tuple
    for k in range(1, min(width, n - 1) + 1):
        for comp in _compositions(n - 1, k):
            for kids in _product([sub(m) for m in comp]):
                out.append(R("VMany", items=tuple(kids)))
    if rich:
        # fixed tuple (VLeaf, VBase)
        if n >= 3:
            for c in sub(n - 2):
                out.append(R("VPair", pair=(R("VLeaf"), c)))
        # mixed: first (single), items (0..2), one (optional)
        for a in range(1, n - 1 + 1):
            rest = n - 1 - a
            for first in sub(a):
                if rest == 0:
                    out.append(R("VMixed", first=first, items=(), one=None))
                    out.append(R("VInh", first=first, items=(), one=None, extra=None))
                    continue
                # all in items
                for k in range(1, min(2, rest) + 1):
                    for comp in _compositions(rest, k):
                        for kids in _product([sub(m) for m in comp]):
                            out.append(R("VMixed", first=first, items=tuple(kids), one=None))
                # one only
                for o in sub(rest):
                    out.append(R("VMixed", first=first, items=(), one=o))
                    out.append(R("VInh", first=first, items=(), one=None, extra=o))
                # one item + one
                if rest >= 2:
                    for b in range(1, rest):
                        for it in sub(b):
                            for o in sub(rest - b):
                                out.append(R("VInh", first=first, items=(it,), one=o, extra=None))
        # two optional fields sharing an initial
        for a in range(0, n):
            b = n - 1 - a
            for x in (sub(a) if a else (None,)):
                for y in (sub(b) if b else (None,)):
                    if x is None and y is None:
                        continue
                    out.append(R("VAbAc", ab=x, ac=y))
    return tuple(out)


def _product(lists: list[tuple[Any, ...]]) -> Iterator[tuple[Any, ...]]:
    if not lists:
        yield ()
        return
    for head in lists[0]:
        for tail in _product(lists[1:]):
            yield (head, *tail)


def number(recipe: Any, counter: list[int] | None = None) -> Any:
    """Give every VLeaf-like node a distinct `v` (pre-order number) so that no two
    positions hold content-equal nodes unless a harness wants that."""
    if counter is None:
        counter = [0]
    cls, props, origin, kids = recipe
    counter[0] += 1
    me = counter[0]
    new_kids = []
    for fname, val in kids:
        if val is None:
            new_kids.append((fname, None))
        elif isinstance(val, tuple) and len(val) == 4 and isinstance(val[0], str):
            new_kids.append((fname, number(val, counter)))
        else:
            new_kids.append((fname, tuple(number(c, counter) for c in val)))
    p = dict(props)
    if cls in ("VLeaf", "VSubLeaf", "VMixed", "VInh", "VFalsy", "VTwinA", "VTwinB", "VNonCmp", "VNonInit", "VMixLeaf", "VLateMix", "VDiamond", "VIter", "VSlot", "VNcKid"):
        p.setdefault("v", me)
    if cls == "VStr2":
        p.setdefault("a", f"s{me}")
    return (cls, tuple(sorted(p.items())), origin, tuple(new_kids))


def all_shapes(max_n: int, depth: int, width: int = 3) -> list[Any]:
    out: list[Any] = []
    for n in range(1, max_n + 1):
        out.extend(number(s) for s in shapes(n, depth, width))
    return out


def falsify(recipe: Any) -> Any:
    """The same recipe with its last VLeaf (pre-order) replaced by a VFalsy node, i.e. a node that
    is falsy in a boolean context (same `v`)."""
    from .zoo import edit_at, positions_of, sub_recipe

    last = None
    for p in positions_of(recipe):
        if sub_recipe(recipe, p)[0] == "VLeaf":
            last = p
    if last is None:
        return recipe
    return edit_at(recipe, last, lambda r: ("VFalsy", r[1], r[2], r[3]))


def exotic_shapes() -> list[Any]:
    """A handful of trees over the node classes with unusual Python-level behaviour or
    definitions: iterable (VIter), falsy (VFalsy), two tuple fields (VTwoSeq), mixins in the MRO,
    slots=True, fields with the less common dataclass flags."""
    from .zoo import R

    L = lambda: R("VLeaf")  # noqa: E731
    return [number(x) for x in (
        R("VReq", child=R("VIter", items=(L(), L()))),
        R("VMixed", first=R("VIter", items=(L(),)), items=(R("VIter"), L()), one=R("VFalsy")),
        R("VTwoSeq", left=(L(), R("VIter", items=(L(),))), right=(L(),), mid=R("VFalsy")),
        R("VMany", items=(R("VMixLeaf"), R("VSlot", kid=L()), R("VFlags", {"h": 1}), R("VDiamond"))),
        R("VSlot", kid=R("VTwoSeq", left=(L(),), right=(L(), L()))),
        R("VNcKid", kid=L(), trivia=(L(), R("VNcKid", kid=L())), main=L()),  # child fields declared compare=False
        R("VKids", func=R("VKids", func=L(), children=(L(),)), children=()),  # a child field named `children`, empty while another child field is set
        R("VMany", items=(R("VKids", func=L(), children=()), R("VKids", func=None, children=(L(), L())))),
        # single-child fields annotated with exactly a collection-like / iterable node class
        R("VHolder", body=R("VColl", items=(L(),)), it=None, many=(R("VColl"),)),
        R("VReq", child=R("VHolder", body=R("VColl"), it=R("VIter", items=(L(),)), many=())),
        # a class and its subclass side by side among the descendants
        R("VMany", items=(L(), R("VSubLeaf"), R("VReq", child=R("VSubLeaf")), L())),
    )]
