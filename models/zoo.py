"""Model zoo: real frozen-dataclass subclasses of pyoak.node.ASTNode used by the
harnesses, plus recipes (plain nested tuples) from which trees are built and
from which every oracle is computed.

A recipe is ``(class_name, props, origin_key, kids)`` where ``props`` is a tuple
of (field, value) pairs, ``origin_key`` selects an origin from ORIGINS (or None
for the default) and ``kids`` is a tuple of (field, value) pairs whose value is a
recipe, None, or a tuple of recipes.
"""
from __future__ import annotations

import enum
import functools
from pathlib import Path
from dataclasses import dataclass, field
from typing import Any, Literal, Union

from pyoak.node import ASTNode
from pyoak.origin import (
    NO_ORIGIN,
    CodeOrigin,
    GeneratedCodeOrigin,
    MemoryTextSource,
    MultiOrigin,
    XMLFileOrigin,
    XMLPath,
    get_code_range,
)


@dataclass(frozen=True)
class VBase(ASTNode):
    pass


@dataclass(frozen=True)
class VLeaf(VBase):
    v: int = 0


@dataclass(frozen=True)
class VSubLeaf(VLeaf):
    w: int = 0


@dataclass(frozen=True)
class VStr2(VBase):
    a: str = ""
    b: str = ""


@dataclass(frozen=True)
class VNonCmp(VBase):
    v: int = 0
    note: str = field(default="", compare=False)


@dataclass(frozen=True)
class VNonInit(VBase):
    v: int = 0
    k: int = field(default=7, init=False)


@dataclass(frozen=True)
class VOne(VBase):
    one: VLeaf | VStr2 | None = None


@dataclass(frozen=True)
class VReq(VBase):
    child: VBase


@dataclass(frozen=True)
class VMany(VBase):
    items: tuple[VBase, ...] = ()


@dataclass(frozen=True)
class VPair(VBase):
    pair: tuple[VLeaf, VBase]


@dataclass(frozen=True)
class VMixed(VBase):
    first: VBase
    items: tuple[VBase, ...] = ()
    one: VBase | None = None
    v: int = 0


@dataclass(frozen=True)
class VInh(VMixed):
    extra: VBase | None = None


@dataclass(frozen=True)
class VAbAc(VBase):
    ab: VBase | None = None
    ac: VBase | None = None


@dataclass(frozen=True)
class VTwinA(VBase):
    v: int = 0
    kid: VBase | None = None


@dataclass(frozen=True)
class VTwinB(VBase):
    v: int = 0
    kid: VBase | None = None


@dataclass(frozen=True)
class VZ(VBase):
    a: str = ""


@dataclass(frozen=True)
class VZL(VBase):
    a: str = ""


@dataclass(frozen=True)
class VFalsy(VBase):
    """A node that is falsy in a boolean context."""

    v: int = 0

    def __len__(self) -> int:
        return 0


@dataclass(frozen=True)
class VStrInt(VBase):
    s: str = ""
    i: int = 0


@dataclass(frozen=True)
class VStrThenInt(VBase):
    a: str = ""
    z: int = 0


@dataclass(frozen=True)
class VStrKid(VBase):
    s: str = ""
    kid: VBase | None = None


class Color(enum.Enum):
    RED = 1
    BLUE = 2


class Shade(enum.Enum):
    RED = 1
    BLUE = 2


@dataclass(frozen=True)
class VRich(VBase):
    """Properties of many kinds."""

    i: int = 0
    s: str = ""
    f: float = 0.0
    b: bool = False
    n: int | None = None
    e: Color = Color.RED
    t: tuple[int, ...] = ()
    fs: frozenset[int] = frozenset()
    hidden: str = field(default="", compare=False)


@dataclass(frozen=True)
class VTyped(VBase):
    """One field per annotation shape, for the runtime type check (C13)."""

    i: int = 0
    j: int = 0
    f: float = 0.0
    s: str = ""
    b: bool = True
    oi: int | None = None
    t: tuple[int, ...] = ()
    ft: tuple[int, str] = (0, "")
    lit: Literal["a", "b"] = "a"
    u: Union[int, str] = 0
    a: Any = None
    e: Color = Color.RED
    kid: VLeaf | None = None
    kids: tuple[VLeaf, ...] = ()
    nc: int = field(default=0, compare=False)
    ni: int = field(default=3, init=False)


CLASSES: dict[str, type[ASTNode]] = {
    c.__name__: c
    for c in (
        VBase, VLeaf, VSubLeaf, VStr2, VNonCmp, VNonInit, VOne, VReq, VMany, VPair, VMixed, VInh,
        VAbAc, VTwinA, VTwinB, VZ, VZL, VFalsy, VRich, VTyped, VStrInt, VStrKid, VStrThenInt,
    )
}

_SRC_A = None
_SRC_B = None
ORIGINS: dict[str, Any] = {}


def make_origins() -> dict[str, Any]:
    """(Re)create the origin pool.  Called after Source.clear_registry()."""
    global _SRC_A, _SRC_B
    _SRC_A = MemoryTextSource(_raw="0123456789abcdef", source_uri="srcA")
    _SRC_B = MemoryTextSource(_raw="ABCDEFGHIJKLMNOP", source_uri="srcB")
    ORIGINS.clear()
    ORIGINS.update(
        {
            "no": NO_ORIGIN,
            "a": CodeOrigin(_SRC_A, get_code_range(1, 1, 1, 3, 1, 3)),
            "a2": CodeOrigin(_SRC_A, get_code_range(1, 1, 1, 3, 1, 3)),  # equal but distinct object
            "b": CodeOrigin(_SRC_A, get_code_range(4, 1, 4, 6, 1, 6)),
            "c": CodeOrigin(_SRC_B, get_code_range(1, 1, 1, 3, 1, 3)),
            "gen": GeneratedCodeOrigin(_SRC_A),
            "xml": XMLFileOrigin(_SRC_B, XMLPath("/root/x[1]")),
        }
    )
    ORIGINS["multi"] = MultiOrigin([ORIGINS["a"], ORIGINS["c"]])
    ORIGINS["multi_tuple"] = MultiOrigin((ORIGINS["b"], ORIGINS["xml"]))  # the members given as a tuple
    # origins that differ from "a" / "gen" although they render the same fqn
    from pyoak.origin import EMPTY_CODE_RANGE, FileSource

    ORIGINS["a_linecol"] = CodeOrigin(_SRC_A, get_code_range(1, 2, 7, 3, 2, 9))  # same indices, other line/column
    ORIGINS["a_file"] = CodeOrigin(FileSource(Path("srcA")), get_code_range(1, 1, 1, 3, 1, 3))  # other source class, same uri
    from pyoak.origin import TextFileSource

    ORIGINS["a_textfile"] = CodeOrigin(TextFileSource(Path("srcA")), get_code_range(1, 1, 1, 3, 1, 3))  # same source_type and uri as "a_file"
    ORIGINS["multi_files"] = MultiOrigin([ORIGINS["a_file"], ORIGINS["a_textfile"]])
    ORIGINS["gen_as_code"] = CodeOrigin(_SRC_A, EMPTY_CODE_RANGE)  # same fields as "gen", other origin class
    ORIGINS["multi_linecol"] = MultiOrigin([ORIGINS["a_linecol"], ORIGINS["c"]])
    # members whose sources are equal but distinct objects (a parser creating one source object per token)
    ORIGINS["multi_equal_sources"] = MultiOrigin([
        CodeOrigin(MemoryTextSource(_raw="0123456789abcdef", source_uri="srcA"), get_code_range(1, 1, 1, 3, 1, 3)),
        CodeOrigin(MemoryTextSource(_raw="0123456789abcdef", source_uri="srcA"), get_code_range(5, 1, 5, 7, 1, 7)),
    ])
    return ORIGINS


_STATE_DENY = {"TYPES", "NODE_REGISTRY", "_TYPE_TO_ALL_FIELDS", "_TYPE_TO_CHILD_FIELDS", "_TYPE_TO_PROPS", "__builtins__", "__all__"}
_STATE_BASELINE: dict[tuple[str, str], Any] = {}
_STATE_LRU: list[Any] = []


_STATE_SCALARS: dict[tuple[str, str], Any] = {}
_STATE_CLASS: dict[tuple[Any, str], Any] = {}
_STATE_OBJ: list[tuple[Any, dict]] = []
_SCALAR_TYPES = (int, float, str, bytes, bool, type(None), tuple, frozenset)
_CLASS_DENY = {"_nodes", "_sources", "_instance"}


def _scan_module_state() -> None:
    """Hidden-state hygiene: remember every module-level container and scalar of pyoak's modules,
    every mutable class-level attribute of the classes they define, the attributes of module-level
    singleton instances of those classes (transformers, interpreters) and every lru_cache outside
    pyoak.typing, so that the per-path reset can put them back.  A path must never depend on the
    paths explored before it in the same process."""
    import sys

    for name, mod in list(sys.modules.items()):
        if not (name == "pyoak" or name.startswith("pyoak.")) or mod is None:
            continue
        for attr, val in list(vars(mod).items()):
            if attr in _STATE_DENY or attr.startswith("__"):
                continue
            if type(val) in (dict, list, set) and (name, attr) not in _STATE_BASELINE:
                _STATE_BASELINE[(name, attr)] = (val, type(val)(val))
            elif isinstance(val, functools._lru_cache_wrapper) and name != "pyoak.typing" and not any(val is x for x in _STATE_LRU):
                _STATE_LRU.append(val)
            elif type(val) in _SCALAR_TYPES and name != "pyoak.config" and (name, attr) not in _STATE_SCALARS:
                _STATE_SCALARS[(name, attr)] = val
            elif isinstance(val, type) and getattr(val, "__module__", None) == name:
                for cattr, cval in list(vars(val).items()):
                    if cattr in _CLASS_DENY or (cattr.startswith("__") and cattr.endswith("__")):
                        continue
                    if type(cval) in (dict, list, set) and (val, cattr) not in _STATE_CLASS:
                        _STATE_CLASS[(val, cattr)] = type(cval)(cval)
            elif not isinstance(val, type) and getattr(type(val), "__module__", "").startswith("pyoak") and hasattr(val, "__dict__") and not callable(val) is None:
                if getattr(type(val), "__module__", "") == name and not any(val is o for o, _ in _STATE_OBJ) and not hasattr(type(val), "__dataclass_fields__"):
                    _STATE_OBJ.append((val, dict(vars(val))))


def _restore_module_state() -> None:
    import sys

    for (_m, _a), (obj, base) in _STATE_BASELINE.items():
        if obj != base:
            obj.clear()
            if isinstance(obj, dict):
                obj.update(base)
            elif isinstance(obj, list):
                obj.extend(base)
            else:
                obj.update(base)
    for (mname, attr), base in _STATE_SCALARS.items():
        mod = sys.modules.get(mname)
        if mod is not None:
            cur = getattr(mod, attr, base)
            if type(cur) is not type(base) or cur != base:
                setattr(mod, attr, base)
    for (cls, attr), base in _STATE_CLASS.items():
        cur = cls.__dict__.get(attr, base)
        if type(cur) is not type(base) or cur != base:
            setattr(cls, attr, type(base)(base))
    for obj, base in _STATE_OBJ:
        cur = vars(obj)
        if cur.keys() != base.keys() or any(cur[k] is not base[k] and cur[k] != base[k] for k in base):
            cur.clear()
            cur.update(base)
    for fn in _STATE_LRU:
        fn.cache_clear()


FORCED_CONFIG: dict[str, Any] = {}


def apply_forced_config() -> None:
    """Diagnostic switches as an input (see vcheck.core._with_diagnostics)."""
    import sys

    from pyoak import config

    config.TRACE_LOGGING = bool(FORCED_CONFIG.get("TRACE_LOGGING", False))
    config.CODEGEN_DEBUG = bool(FORCED_CONFIG.get("CODEGEN_DEBUG", False))
    for name in ("pyoak.legacy.node", "pyoak.node", "pyoak.tree", "pyoak.visitor", "pyoak.match.xpath", "pyoak.match.pattern"):
        m = sys.modules.get(name)
        if m is not None and isinstance(getattr(m, "TRACE_LOGGING", None), bool):
            m.TRACE_LOGGING = config.TRACE_LOGGING


_N_MODULES = [0, 0]


def reset_all() -> None:
    """Per-path reset of every process-global registry / cache of pyoak."""
    import sys

    if not _STATE_BASELINE:
        import pyoak.match.pattern  # noqa: F401
        import pyoak.match.xpath  # noqa: F401
        import pyoak.tree  # noqa: F401
        import pyoak.visitor  # noqa: F401

        _scan_module_state()
        _N_MODULES[0] = sum(1 for n_ in sys.modules if n_.startswith("pyoak"))
    elif _N_MODULES[1] != len(sys.modules):
        # modules of the library imported since (the legacy family): their state joins the baseline
        _N_MODULES[1] = len(sys.modules)
        n_now = sum(1 for n_ in sys.modules if n_.startswith("pyoak"))
        if n_now != _N_MODULES[0]:
            _N_MODULES[0] = n_now
            _scan_module_state()
    _restore_module_state()
    from pyoak import config
    from pyoak.node import NODE_REGISTRY
    from pyoak.origin import Source
    from pyoak.serialize import DataClassSerializeMixin

    NODE_REGISTRY.clear()
    Source.clear_registry()
    config.ID_DIGEST_SIZE = 8
    config.RUNTIME_TYPE_CHECK = False
    apply_forced_config()
    setattr(DataClassSerializeMixin, "_DataClassSerializeMixin__serialization_options", {})
    setattr(DataClassSerializeMixin, "_DataClassSerializeMixin__mashumaro_dialect", None)
    import sys

    m = sys.modules.get("pyoak.match.xpath")
    if m is not None and hasattr(getattr(m, "_AST_XPATH_CACHE", None), "clear"):
        m._AST_XPATH_CACHE.clear()
    m = sys.modules.get("pyoak.match.pattern")
    if m is not None and hasattr(getattr(m, "_MATCHER_CACHE", None), "clear"):
        m._MATCHER_CACHE.clear()
    m = sys.modules.get("pyoak.legacy.node")
    if m is not None:
        m.AwareASTNode._nodes.clear()
    ORIGINS.clear()


def origin(key: str) -> Any:
    if not ORIGINS:
        make_origins()
    return ORIGINS[key]


# ------------------------------------------------------------------- recipes
def R(cls: str, props: dict[str, Any] | None = None, origin: str | None = None, **kids: Any) -> tuple:
    return (cls, tuple(sorted((props or {}).items())), origin, tuple(kids.items()))


def build(recipe: Any, memo: dict[int, Any] | None = None) -> Any:
    """Build the real tree bottom-up.  The same recipe *object* occurring at two
    positions is built once (shared node object) when a memo is passed."""
    if recipe is None:
        return None
    if memo is not None and id(recipe) in memo:
        return memo[id(recipe)]
    cls, props, origin, kids = recipe
    kw: dict[str, Any] = dict(props)
    for fname, val in kids:
        if val is None:
            kw[fname] = None
        elif _is_recipe(val):
            kw[fname] = build(val, memo)
        else:
            kw[fname] = tuple(build(c, memo) for c in val)
    if origin is not None:
        kw["origin"] = _origin(origin)
    node = CLASSES[cls](**kw)
    if memo is not None:
        memo[id(recipe)] = node
    return node


def _origin(key: str) -> Any:
    return origin(key)


def _is_recipe(val: Any) -> bool:
    return isinstance(val, tuple) and len(val) == 4 and isinstance(val[0], str)


def kids_of(recipe: Any) -> list[tuple[str, int | None, Any]]:
    """Child positions of a recipe in *declaration order of the real class*."""
    from dataclasses import fields

    cls, _props, _origin, kids = recipe
    kd = dict(kids)
    out: list[tuple[str, int | None, Any]] = []
    for f in fields(CLASSES[cls]):
        if f.name not in kd:
            continue
        val = kd[f.name]
        if val is None:
            continue
        if _is_recipe(val):
            out.append((f.name, None, val))
        else:
            for i, c in enumerate(val):
                out.append((f.name, i, c))
    return out


def recipe_size(recipe: Any) -> int:
    return 1 + sum(recipe_size(c) for _, _, c in kids_of(recipe))


def describe(recipe: Any) -> Any:
    if recipe is None:
        return None
    cls, props, origin, kids = recipe
    d: dict[str, Any] = {"cls": cls}
    if props:
        d["props"] = dict(props)
    if origin:
        d["origin"] = origin
    for fname, val in kids:
        if val is None:
            d[fname] = None
        elif _is_recipe(val):
            d[fname] = describe(val)
        else:
            d[fname] = [describe(c) for c in val]
    return d


# ------------------------------------------------------------ recipe utilities
def positions_of(recipe: Any) -> list[list[tuple[str, int | None]]]:
    """Paths (lists of (field, index)) of every position of a recipe, pre-order, root first."""
    out: list[list[tuple[str, int | None]]] = [[]]

    def rec(r: Any, path: list) -> None:
        for fname, idx, crec in kids_of(r):
            p = path + [(fname, idx)]
            out.append(p)
            rec(crec, p)

    rec(recipe, [])
    return out


def edit_at(recipe: Any, path: list[tuple[str, int | None]], fn: Any) -> Any:
    """A copy of the recipe in which the sub-recipe at `path` is replaced by fn(sub-recipe)."""
    if not path:
        return fn(recipe)
    cls, props, origin_, kids = recipe
    (fname, idx), rest = path[0], path[1:]
    nk = []
    for f, val in kids:
        if f != fname:
            nk.append((f, val))
        elif idx is None:
            nk.append((f, edit_at(val, rest, fn)))
        else:
            nk.append((f, tuple(edit_at(c, rest, fn) if i == idx else c for i, c in enumerate(val))))
    return (cls, props, origin_, tuple(nk))


def with_origin(recipe: Any, path: list[tuple[str, int | None]], key: str | None) -> Any:
    return edit_at(recipe, path, lambda r: (r[0], r[1], key, r[3]))


def sub_recipe(recipe: Any, path: list[tuple[str, int | None]]) -> Any:
    r = recipe
    for fname, idx in path:
        val = dict(r[3])[fname]
        r = val if idx is None else val[idx]
    return r


def node_at(node: Any, path: list[tuple[str, int | None]]) -> Any:
    n = node
    for fname, idx in path:
        val = getattr(n, fname)
        n = val if idx is None else val[idx]
    return n


def origin_class(key: str | None) -> str:
    """Origins that compare equal share a class: 'a2' is an equal-but-distinct copy of 'a'."""
    if key is None:
        return "no"
    return "a" if key == "a2" else key


@dataclass(frozen=True)
class VSer(VBase):
    """Property values of every representable kind (C04)."""

    s: str = ""
    i: int = 0
    f: float = 0.0
    b: bool = False
    n: int | None = None
    e: Color = Color.RED
    p: Path = Path(".")
    lit: Literal["a", "b"] = "a"
    t: tuple[int, ...] = ()
    ot: tuple[str, ...] | None = None
    hidden: str = field(default="", compare=False)
    kid: VBase | None = None
    kids: tuple[VBase, ...] = ()


CLASSES["VSer"] = VSer


@dataclass(frozen=True)
class VValidated(VBase):
    """A node class with its own validation after the base initialisation."""

    v: int = 0
    note: str = field(default="", compare=False)
    kid: VBase | None = None

    def __post_init__(self) -> None:
        super().__post_init__()
        if self.note == "bad":
            raise ValueError("rejected by the subclass")


@dataclass(frozen=True)
class VPascal(VBase):
    """Field names that sort before the type key."""

    Name: str = ""
    Kid: VBase | None = None
    Zed: int = 0


@dataclass(frozen=True, slots=True)
class VSlot(VBase):
    """A slotted node class (dataclass re-creates the class object for slots=True)."""

    v: int = 0
    kid: VBase | None = None


@dataclass(frozen=True)
class VBin(VBase):
    """A bytes property (needs the MessagePack dialect) and a self-typed child, so that
    untagged input can be read back."""

    blob: bytes = b""
    kid: "VBin | None" = None


@dataclass(frozen=True)
class VAt(VBase):
    """Property values that are themselves serializable pyoak objects (a code point, a range), next to
    a bytes property that needs the MessagePack dialect on the way back."""

    at: "CodePoint | None" = None
    span: "CodeRange | None" = None
    blob: bytes = b""
    kid: "VBase | None" = None


from pyoak.origin import CodePoint, CodeRange  # noqa: E402

CLASSES["VAt"] = VAt


class _Pretty:
    """A plain (non-node) mixin."""

    def pretty(self) -> str:
        return f"<{type(self).__name__}>"


@dataclass(frozen=True)
class VMixLeaf(_Pretty, VLeaf):
    """Non-node mixin listed before the node base: MRO VMixLeaf, _Pretty, VLeaf, VBase, ASTNode."""


@dataclass(frozen=True)
class VLateMix(VLeaf, _Pretty):
    """Mixin listed after the node base."""


@dataclass(frozen=True)
class VDiamond(VSubLeaf, VMixLeaf):
    """MRO VDiamond, VSubLeaf, VMixLeaf, _Pretty, VLeaf, ..."""


CLASSES["VMixLeaf"] = VMixLeaf
CLASSES["VLateMix"] = VLateMix
CLASSES["VDiamond"] = VDiamond
@dataclass(frozen=True)
class VFlags(VBase):
    """Comparable properties declared with the dataclass field flags other than compare / init."""

    h: int = field(default=0, hash=False)
    r: int = field(default=0, repr=False)
    m: int = field(default=0, metadata={"unit": "x"})
    d: int = field(default_factory=lambda: 0)
    k: int = field(default=0, kw_only=True)
    nh: int = field(default=0, hash=True, compare=False)  # the reverse: hashed by dataclass, yet not comparable


CLASSES["VFlags"] = VFlags
@dataclass(frozen=True)
class VTwoSeq(VBase):
    """Two tuple child fields: an index is relative to the field, not to the node."""

    left: tuple[VBase, ...] = ()
    right: tuple[VBase, ...] = ()
    mid: VBase | None = None


@dataclass(frozen=True)
class VIter(VBase):
    """A node class that is iterable (over its items) without being a collection: it defines
    __iter__ only, so it is neither falsy nor sized."""

    items: tuple[VBase, ...] = ()
    v: int = 0

    def __iter__(self):
        return iter(self.items)


CLASSES["VTwoSeq"] = VTwoSeq
CLASSES["VIter"] = VIter
@dataclass(frozen=True)
class VNcKid(VBase):
    """Child fields declared with compare=False (comments, trivia): they are children all the same."""

    v: int = 0
    kid: VBase | None = field(default=None, compare=False)
    trivia: tuple[VBase, ...] = field(default=(), compare=False)
    main: VBase | None = None


CLASSES["VNcKid"] = VNcKid


@dataclass(frozen=True)
class VColl(VBase):
    """A node class that is structurally a collections.abc.Collection (sized, iterable, container)
    over its own items - a block iterable over its statements."""

    items: tuple[VBase, ...] = ()
    v: int = 0

    def __len__(self) -> int:
        return len(self.items)

    def __iter__(self):
        return iter(self.items)

    def __contains__(self, x: object) -> bool:
        return any(x is c for c in self.items)


@dataclass(frozen=True)
class VHolder(VBase):
    """Child fields annotated with exactly an iterable / collection-like node class."""

    body: VColl
    it: "VIter | None" = None
    many: tuple[VColl, ...] = ()
    v: int = 0


CLASSES["VColl"] = VColl


@dataclass(frozen=True)
class VKids(VBase):
    """Fields named like public attributes of the node base class: a child field called `children`
    (it shadows ASTNode's convenience property of that name; the library's own tests use such a
    field) next to another child field, and a property called `fields`."""

    v: int = 0
    func: VBase | None = None
    children: tuple[VBase, ...] = ()
    fields: int = 0


CLASSES["VKids"] = VKids
CLASSES["VHolder"] = VHolder
_STAMPS = __import__("itertools").count(1)


@dataclass(frozen=True)
class VStamp(VBase):
    """Per-instance bookkeeping that is neither an argument nor comparable (a creation counter)."""

    v: int = 0
    stamp: int = field(default_factory=lambda: next(_STAMPS), init=False, compare=False)
    kid: VBase | None = None


CLASSES["VStamp"] = VStamp
_SERIALS = __import__("itertools").count(1)


@dataclass(frozen=True)
class VSerial(VBase):
    """COMPARABLE properties that are no constructor arguments and differ between instances: one
    taken from a counter, one computed from an argument before the base initialisation."""

    name: str = ""
    serial: int = field(default_factory=lambda: next(_SERIALS), init=False)
    size: int = field(default=0, init=False)

    def __post_init__(self) -> None:
        object.__setattr__(self, "size", len(self.name) % 2)
        super().__post_init__()


CLASSES["VSerial"] = VSerial


@dataclass(frozen=True)
class VDerived(VBase):
    """A CHILD field that is no constructor argument: the class derives it itself (a resolved target)."""

    name: str = ""
    target: VBase | None = field(default=None, init=False)

    def __post_init__(self) -> None:
        object.__setattr__(self, "target", VLeaf(v=len(self.name)))
        super().__post_init__()


CLASSES["VDerived"] = VDerived
CLASSES["VSlot"] = VSlot
CLASSES["VBin"] = VBin
CLASSES["VValidated"] = VValidated
CLASSES["VPascal"] = VPascal


# ------------------------------------------------ fault-injecting property (C16)
class _Hook:
    """A mashumaro field-level serialize hook whose k-th invocation may raise."""

    callback: Any = None  # callable(k) -> truthy => raise
    count = 0

    @classmethod
    def reset(cls) -> None:
        cls.callback = None
        cls.count = 0


def _hook_serialize(value: int) -> int:
    _Hook.count += 1
    cb = _Hook.callback
    if cb is not None and cb(_Hook.count):
        raise ValueError(f"injected failure at nested object #{_Hook.count}")
    return value


@dataclass(frozen=True)
class VHook(VBase):
    payload: int = field(default=0, metadata={"serialize": _hook_serialize})
    kid: VBase | None = None


CLASSES["VHook"] = VHook
