"""Legacy (parent-aware) model zoo: dataclass subclasses of pyoak.legacy.node.AwareASTNode."""
from __future__ import annotations

import warnings
from dataclasses import dataclass, field, fields
from typing import Any, Sequence

warnings.simplefilter("ignore", DeprecationWarning)

from pyoak.legacy.node import AwareASTNode  # noqa: E402
from pyoak.origin import NO_ORIGIN  # noqa: E402


@dataclass
class LBase(AwareASTNode):
    pass


@dataclass
class LLeaf(LBase):
    v: int = 0


@dataclass
class LSub(LLeaf):
    w: int = 0


@dataclass
class LTup(LBase):
    items: tuple[LBase, ...] = ()


@dataclass
class LList(LBase):
    elems: list[LBase] = field(default_factory=list)


@dataclass
class LOpt(LBase):
    one: LBase | None = None


@dataclass
class LReq(LBase):
    child: LBase


@dataclass
class LMix(LBase):
    first: LBase
    items: tuple[LBase, ...] = ()
    one: LBase | None = None
    v: int = 0


@dataclass
class LNarrow(LBase):
    """A required child field that only accepts leaves."""

    only: LLeaf


@dataclass
class LAbs(LBase):
    """A child field whose annotation names an abstract collection: it holds nodes by its value."""

    head: LBase | None = None
    extras: Sequence[LBase] = ()


@dataclass
class LTwoSeq(LBase):
    """Two sequence child fields (like the body / orelse of an if statement), a tuple and a list."""

    body: tuple[LBase, ...] = ()
    orelse: list[LBase] = field(default_factory=list)


@dataclass
class LOptSeq(LBase):
    """A sequence child field that may also be absent altogether."""

    seq: tuple[LBase, ...] | None = None
    lst: list[LBase] | None = None


@dataclass
class LNcKid(LBase):
    """A child field that takes no part in == (trivia): a node can then be == to its own descendant."""

    v: int = 0
    kid: LBase | None = field(default=None, compare=False)
    more: tuple[LBase, ...] = field(default=(), compare=False)


@dataclass
class LFalsy(LLeaf):
    """A leaf that is falsy in a boolean context (e.g. an empty container node)."""

    def __bool__(self) -> bool:
        return False


LCLASSES: dict[str, type] = {c.__name__: c for c in (LBase, LLeaf, LSub, LTup, LList, LOpt, LReq, LMix, LNarrow, LFalsy, LAbs, LTwoSeq, LOptSeq, LNcKid)}


def _is_recipe(val: Any) -> bool:
    return isinstance(val, tuple) and len(val) == 4 and isinstance(val[0], str)


def lbuild(recipe: Any, all_detached: bool = False, **extra: Any) -> Any:
    """Build a legacy tree bottom-up from a recipe (see models.zoo.R): attached, or -- with
    all_detached -- every node created with create_detached=True (never registered: content-equal
    nodes then carry equal ids, which is legal for cousins)."""
    if recipe is None:
        return None
    cls, props, _origin, kids = recipe
    kw: dict[str, Any] = dict(props)
    for fname, val in kids:
        if val is None:
            kw[fname] = None
        elif _is_recipe(val):
            kw[fname] = lbuild(val, all_detached)
        elif isinstance(val, list):
            kw[fname] = [lbuild(c, all_detached) for c in val]
        else:
            kw[fname] = tuple(lbuild(c, all_detached) for c in val)
    if all_detached:
        extra = {**extra, "create_detached": True}
    return LCLASSES[cls](origin=NO_ORIGIN, **kw, **extra)


def lkids_of(recipe: Any) -> list[tuple[str, int | None, Any]]:
    cls, _p, _o, kids = recipe
    kd = dict(kids)
    out: list[tuple[str, int | None, Any]] = []
    for f in fields(LCLASSES[cls]):
        if f.name not in kd:
            continue
        val = kd[f.name]
        if val is None:
            continue
        if _is_recipe(val):
            out.append((f.name, None, val))
        else:
            for i, c in enumerate(val):
                out.append((f.name, i, c))
    return out


def lreset() -> None:
    """Per-path reset: the legacy registry, plus the hidden-state hygiene shared with the other zoo
    (module-level containers, scalars, caches and singleton objects of every loaded pyoak module put
    back to what they were at import, as in a fresh process)."""
    import pyoak.legacy.match.pattern  # noqa: F401
    import pyoak.legacy.match.xpath  # noqa: F401

    from .zoo import reset_all

    reset_all()
    AwareASTNode._nodes.clear()


# ------------------------------------------------------------------ shapes
from functools import lru_cache  # noqa: E402

from .shapes import _compositions, _product  # noqa: E402
from .zoo import R  # noqa: E402


@lru_cache(maxsize=None)
def lshapes(n: int, depth: int, width: int = 3, rich: bool = True) -> tuple:
    out: list[Any] = []
    if n == 1:
        out.append(R("LLeaf"))
        if rich:
            out.append(R("LSub"))
        return tuple(out)
    if depth == 0:
        return ()
    sub = lambda m: lshapes(m, depth - 1, width, False)  # noqa: E731
    for c in sub(n - 1):
        out.append(R("LReq", child=c))
        out.append(R("LOpt", one=c))
    for k in range(1, min(width, n - 1) + 1):
        for comp in _compositions(n - 1, k):
            for kids in _product([sub(m) for m in comp]):
                out.append(R("LTup", items=tuple(kids)))
                if rich or k > 1:
                    out.append(R("LList", elems=list(kids)))
    if rich:
        for a in range(1, n):
            rest = n - 1 - a
            for first in sub(a):
                if rest == 0:
                    out.append(R("LMix", first=first, items=(), one=None))
                    continue
                for o in sub(rest):
                    out.append(R("LMix", first=first, items=(), one=o))
                    out.append(R("LMix", first=first, items=(o,), one=None))
                if rest >= 2:
                    for b in range(1, rest):
                        for it in sub(b):
                            for o in sub(rest - b):
                                out.append(R("LMix", first=first, items=(it,), one=o))
    return tuple(out)


def lnumber(recipe: Any, counter: list[int] | None = None) -> Any:
    if counter is None:
        counter = [0]
    cls, props, origin, kids = recipe
    counter[0] += 1
    me = counter[0]
    new_kids = []
    for fname, val in kids:
        if val is None:
            new_kids.append((fname, None))
        elif _is_recipe(val):
            new_kids.append((fname, lnumber(val, counter)))
        elif isinstance(val, list):
            new_kids.append((fname, [lnumber(c, counter) for c in val]))
        else:
            new_kids.append((fname, tuple(lnumber(c, counter) for c in val)))
    p = dict(props)
    if cls in ("LLeaf", "LSub", "LMix"):
        p.setdefault("v", me)
    return (cls, tuple(sorted(p.items())), origin, tuple(new_kids))


def all_lshapes(max_n: int, depth: int, width: int = 3) -> list[Any]:
    out: list[Any] = []
    for n in range(1, max_n + 1):
        out.extend(lnumber(s) for s in lshapes(n, depth, width))
    return out


def ldescribe(recipe: Any) -> Any:
    if recipe is None:
        return None
    cls, props, _origin, kids = recipe
    d: dict[str, Any] = {"cls": cls}
    if props:
        d["props"] = dict(props)
    for fname, val in kids:
        if val is None:
            d[fname] = None
        elif _is_recipe(val):
            d[fname] = ldescribe(val)
        else:
            d[fname] = [ldescribe(c) for c in val]
    return d
