"""Driver: ./check <ID> [--tier quick|thorough] [--replay path] [--selftest]

Exit codes: 0 = property held on everything explored (known findings printed),
1 = replayed violation that known_findings.json does not list,
3 = harness error / inconclusive obligation / non-reproducing counterexample.
"""
from __future__ import annotations

import argparse
import importlib
import json
import os
import sys
import time
import traceback

from . import core


def main() -> int:
    ap = argparse.ArgumentParser()
    ap.add_argument("check_id")
    ap.add_argument("--tier", default=os.environ.get("VERIF_TIER", "quick"), choices=["quick", "thorough"])
    ap.add_argument("--replay", default=None)
    ap.add_argument("--selftest", action="store_true")
    ap.add_argument("--workers", type=int, default=int(os.environ.get("VERIF_WORKERS", "0")) or None)
    ap.add_argument("--only", default=None, help="run only families/obligations whose name contains this")
    ap.add_argument("--no-evidence", action="store_true")
    args = ap.parse_args()

    cid = args.check_id.upper()
    try:
        seed = int(os.environ.get("VERIF_SEED", "0"))
    except ValueError:
        seed = 0
    try:
        mod = importlib.import_module(f"checks.{cid}")
    except ModuleNotFoundError as e:
        print(f"no such check: {cid} ({e})", file=sys.stderr)
        return 3

    if args.replay:
        return core.replay_file(mod, cid, args.replay)

    t0 = time.time()
    try:
        if args.selftest:
            return core.selftest(mod, cid, args.tier, seed, args.workers)
        return core.run_check(mod, cid, args.tier, seed, args.workers, only=args.only, write_evidence=not args.no_evidence, plant=os.environ.get('VCHECK_PLANT') or None)
    except core.HarnessFailure as e:
        print(f"HARNESS-ERROR check={cid}: {e}", file=sys.stderr)
        return 3
    except Exception:
        traceback.print_exc()
        print(f"HARNESS-ERROR check={cid}: unexpected exception", file=sys.stderr)
        return 3
    finally:
        sys.stdout.flush()
        _ = t0


if __name__ == "__main__":
    sys.exit(main())
