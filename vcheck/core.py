"""Shared machinery of all checks: running symx families in parallel, obligation
bookkeeping for the CrossHair / SMT engines, replay before reporting, known
findings, evidence files, exit codes."""
from __future__ import annotations

import hashlib
import importlib
import inspect
import json
import multiprocessing as mp
import os
import re
import subprocess
import sys
import time
import traceback
from dataclasses import dataclass, field
from typing import Any, Callable

VERIF = os.path.dirname(os.path.dirname(os.path.abspath(__file__)))
EVIDENCE_DIR = os.path.join(VERIF, "evidence")
REPLAY_DIR = os.path.join(VERIF, "replays")
KNOWN_FILE = os.path.join(VERIF, "known_findings.json")
MAX_CONFIRM = 24  # distinct signatures replayed per run


class HarnessFailure(Exception):
    pass


@dataclass
class Family:
    """One symx harness (engine P)."""

    name: str
    harness: Callable[[Any], Any]
    max_paths: int | None = None
    time_budget: float | None = None
    per_path_timeout: float = 5.0
    variables: str = ""  # which kinds of symbolic variable: data / lazy / selector


DIAGNOSTICS_EVERY = 7


def _with_diagnostics(harness: Callable[[Any], Any]) -> Callable[[Any], Any]:
    """The same harness with the library's diagnostic switches on (config.TRACE_LOGGING,
    config.CODEGEN_DEBUG, legacy TRACE_LOGGING): configuration is an input like any other and
    no property may depend on it.  models.zoo.reset_all() / legacy_zoo.lreset() apply the
    forced values after their reset."""

    def h(e: Any) -> Any:
        from models import zoo

        import contextlib
        import io

        zoo.FORCED_CONFIG = {"TRACE_LOGGING": True, "CODEGEN_DEBUG": True}
        try:
            zoo.apply_forced_config()
            with contextlib.redirect_stdout(io.StringIO()):  # CODEGEN_DEBUG prints the generated code
                return harness(e)
        finally:
            zoo.FORCED_CONFIG = {}
            zoo.apply_forced_config()

    return h


def build_spec(mod: Any, tier: str, seed: int) -> "Spec":
    """mod.spec() plus, for every DIAGNOSTICS_EVERY-th family, a copy that runs with the
    diagnostic switches on."""
    import logging

    spec: Spec = mod.spec(tier, seed)
    extra = [
        Family(f.name + "+diagnostics-on", _with_diagnostics(f.harness), f.max_paths, f.time_budget, f.per_path_timeout, f.variables + "; config.TRACE_LOGGING / CODEGEN_DEBUG forced on")
        for f in spec.families[:: DIAGNOSTICS_EVERY]
    ]
    spec.families = list(spec.families) + extra
    logging.getLogger("pyoak").setLevel(logging.CRITICAL)  # the switches build their messages; nothing is printed
    logging.getLogger().setLevel(logging.CRITICAL)
    return spec


@dataclass
class Obligation:
    """Result of one solver obligation of engines X (CrossHair) or Z (SMT-LIB)."""

    name: str
    engine: str  # "X" | "Z"
    status: str  # discharged | violated | inconclusive | error
    seconds: float = 0.0
    detail: dict[str, Any] = field(default_factory=dict)
    signature: str = ""  # for violated
    replay: dict[str, Any] | None = None  # payload for mod.replay_obligation
    queries: int = 1
    solver: str = ""


@dataclass
class Spec:
    families: list[Family] = field(default_factory=list)
    # callables (tier, seed, workers) -> list[Obligation]
    obligation_runners: list[Callable[[str, int, int], list[Obligation]]] = field(default_factory=list)
    functions: list[str] = field(default_factory=list)  # "module:qualname" executed / encoded
    bounds: dict[str, Any] = field(default_factory=dict)
    assumptions: list[str] = field(default_factory=list)
    outside: list[str] = field(default_factory=list)
    rule: str = ""
    variables: str = ""
    stubs: list[str] = field(default_factory=list)


# --------------------------------------------------------------------------- P
_FAMILIES: list[Family] = []
_PLANT: str | None = None


def _run_family(idx: int) -> tuple[int, Any, str | None]:
    from symx import Engine

    fam = _FAMILIES[idx]
    try:
        eng = Engine(per_path_timeout=fam.per_path_timeout)
        res = eng.explore(fam.harness, max_paths=fam.max_paths, time_budget=fam.time_budget, sample_every=97)
        for v in res.violations:
            v["family"] = fam.name
        res.distinct = {(fam.name, k) for k in res.distinct}
        return idx, res, None
    except BaseException:  # noqa: BLE001 - reported as harness error
        return idx, None, traceback.format_exc()


_CID = [""]
_KNOWN: list[Any] = []


def _known_cached() -> list[dict[str, Any]]:
    if not _KNOWN:
        _KNOWN.append(load_known())
    return _KNOWN[0]


def run_families(families: list[Family], workers: int | None) -> tuple[Any, dict[str, Any], list[str]]:
    from symx import ExploreResult

    global _FAMILIES
    _FAMILIES = families
    total = ExploreResult()
    per_family: dict[str, Any] = {}
    errors: list[str] = []
    if not families:
        total.exhausted = True
        return total, per_family, errors
    workers = workers or min(16, os.cpu_count() or 1)
    ctx = mp.get_context("fork")
    all_exhausted = True
    # longest families first would be nice; keep given order but chunksize 1
    with ctx.Pool(min(workers, len(families))) as pool:
        for idx, res, err in pool.imap_unordered(_run_family, range(len(families)), chunksize=1):
            fam = families[idx]
            if err is not None:
                errors.append(f"family {fam.name}: {err}")
                all_exhausted = False
                continue
            total.merge(res)
            all_exhausted = all_exhausted and res.exhausted
            if os.environ.get("VCHECK_STOP_AT_FIRST_VIOLATION") and any(match_known(_CID[0], s_, _known_cached()) is None for s_ in res.violation_counts):
                # development aid for regression runs over seeded changes: a family has reported a
                # violation, the remaining families are not needed to tell "caught" from "missed"
                # (never set by the registered commands)
                pool.terminate()
                break
            per_family[fam.name] = {
                "paths": res.paths,
                "completed": res.completed,
                "aborted": res.aborted,
                "timeouts": res.timeouts,
                "exhausted": res.exhausted,
                "solver_checks": res.solver_checks,
                "solver_s": round(res.solver_s, 3),
                "wall_s": round(res.wall_s, 3),
                "violations": sum(res.violation_counts.values()),
                "variables": fam.variables,
            }
    total.exhausted = all_exhausted
    return total, per_family, errors


# ------------------------------------------------------------------- functions
def describe_functions(names: list[str]) -> list[dict[str, str]]:
    out = []
    for n in names:
        modname, _, qual = n.partition(":")
        try:
            obj: Any = importlib.import_module(modname)
            for part in qual.split("."):
                if part:
                    obj = inspect.getattr_static(obj, part) if inspect.isclass(obj) else getattr(obj, part)
            if isinstance(obj, (classmethod, staticmethod)):
                obj = obj.__func__
            if isinstance(obj, property):
                obj = obj.fget
            src = inspect.getsource(obj)
            f = inspect.getsourcefile(obj) or ""
            out.append({"function": n, "file": f, "sha256": hashlib.sha256(src.encode()).hexdigest()[:16]})
        except Exception as e:  # noqa: BLE001
            out.append({"function": n, "file": "?", "sha256": f"unavailable: {type(e).__name__}"})
    return out


# -------------------------------------------------------------- known findings
def load_known() -> list[dict[str, Any]]:
    if not os.path.exists(KNOWN_FILE):
        return []
    with open(KNOWN_FILE) as f:
        data = json.load(f)
    return list(data.get("findings", []))


def match_known(cid: str, signature: str, known: list[dict[str, Any]]) -> dict[str, Any] | None:
    for k in known:
        if k.get("property") != cid or k.get("status", "open") != "open":
            continue
        if re.fullmatch(k["signature"], signature):
            return k
    return None


# ---------------------------------------------------------------------- replay
def _jsonable(o: Any) -> Any:
    if isinstance(o, (str, int, float, bool)) or o is None:
        return o
    if isinstance(o, dict):
        return {str(k): _jsonable(v) for k, v in o.items()}
    if isinstance(o, (list, tuple, set, frozenset)):
        return [_jsonable(v) for v in o]
    return repr(o)


def write_replay(cid: str, payload: dict[str, Any]) -> str:
    os.makedirs(REPLAY_DIR, exist_ok=True)
    body = json.dumps(_jsonable(payload), indent=1, sort_keys=True)
    digest = hashlib.sha256(body.encode()).hexdigest()[:12]
    path = os.path.join(REPLAY_DIR, f"{cid}-{digest}.json")
    with open(path, "w") as f:
        f.write(body)
    return path


def confirm_replay(cid: str, path: str, timeout: float = 120.0) -> tuple[bool, str]:
    """Re-run a scenario in a fresh interpreter with plain values."""
    env = dict(os.environ)
    env["VCHECK_REPLAY_CHILD"] = "1"
    try:
        p = subprocess.run(
            [sys.executable, "-m", "vcheck", cid, "--replay", path],
            capture_output=True,
            text=True,
            timeout=timeout,
            env=env,
            cwd=VERIF,
        )
    except subprocess.TimeoutExpired:
        return False, "replay timed out"
    out = (p.stdout or "") + (p.stderr or "")
    return p.returncode == 1 and "VIOLATION" in p.stdout, out.strip()[-2000:]


def replay_file(mod: Any, cid: str, path: str) -> int:
    from symx import PathAbort, Violation
    from symx.concrete import ConcreteEngine

    with open(path) as f:
        payload = json.load(f)
    plant = payload.get("plant") or os.environ.get("VCHECK_PLANT")
    if plant:
        _apply_plant(mod, plant)
    engine = payload.get("engine", "P")
    if engine == "P":
        spec: Spec = build_spec(mod, payload.get("tier", "quick"), 0)
        fam = next((f for f in spec.families if f.name == payload["family"]), None)
        if fam is None:
            print(f"NOT-REPRODUCED property={cid} (family {payload['family']} no longer exists)")
            return 0
        eng = ConcreteEngine(payload.get("values", {}))
        try:
            fam.harness(eng)
        except Violation as v:
            print(f"scenario: {json.dumps(_jsonable(v.detail))[:3000]}")
            if v.signature == payload.get("signature"):
                print(f"VIOLATION property={cid} replay={path}")
                return 1
            print(f"NOT-REPRODUCED property={cid} (different signature {v.signature})")
            return 0
        except PathAbort:
            print(f"NOT-REPRODUCED property={cid} (scenario outside the harness precondition)")
            return 0
        except Exception as ex:  # noqa: BLE001
            from symx.engine import unexpected_signature

            sig = unexpected_signature(ex)
            print(f"scenario raised {type(ex).__name__}: {ex}"[:600])
            if sig == payload.get("signature"):
                print(f"VIOLATION property={cid} replay={path}")
                return 1
            print(f"NOT-REPRODUCED property={cid} (different signature {sig})")
            return 0
        print(f"NOT-REPRODUCED property={cid}")
        return 0
    # X / Z obligations: module specific
    ok, text = mod.replay_obligation(payload)
    if text:
        print(text)
    if ok:
        print(f"VIOLATION property={cid} replay={path}")
        return 1
    print(f"NOT-REPRODUCED property={cid}")
    return 0


def _apply_plant(mod: Any, name: str) -> None:
    plants = getattr(mod, "PLANTED", {})
    if name not in plants:
        raise HarnessFailure(f"unknown planted bug {name}")
    plants[name]()


# ------------------------------------------------------------------------- run
def run_check(
    mod: Any,
    cid: str,
    tier: str,
    seed: int,
    workers: int | None,
    only: str | None = None,
    write_evidence: bool = True,
    plant: str | None = None,
    quiet: bool = False,
) -> int:
    t0 = time.time()
    _CID[0] = cid
    if plant:
        _apply_plant(mod, plant)
    spec: Spec = build_spec(mod, tier, seed)
    families = spec.families
    if only:
        families = [f for f in families if only in f.name]
    if seed:
        import random

        rnd = random.Random(seed)
        families = list(families)
        rnd.shuffle(families)

    # every family runs under a wall-clock budget (normal families take seconds): a change to the
    # library that makes the exploration explode or crawl ends as "not exhausted" (exit 3 unless a
    # violation was found before), never as a check that does not return
    budget = float(os.environ.get("VERIF_FAMILY_BUDGET", "0") or 0) or (300.0 if tier == "quick" else 3000.0)
    for f in families:
        if f.time_budget is None:
            f.time_budget = budget
    total, per_family, errors = run_families(families, workers)
    for name, pf in per_family.items():
        if not pf["exhausted"]:
            errors.append(f"family {name}: decision tree not exhausted within its budget of {budget:.0f} s ({pf['paths']} paths explored): inconclusive")

    obligations: list[Obligation] = []
    for runner in spec.obligation_runners:
        try:
            obligations.extend(runner(tier, seed, workers or 16) if not only else [o for o in runner(tier, seed, workers or 16) if only in o.name])
        except HarnessFailure as e:
            errors.append(str(e))
        except Exception:  # noqa: BLE001
            errors.append(traceback.format_exc())

    known = load_known()
    # ---- collect candidate violations by signature
    by_sig: dict[str, list[dict[str, Any]]] = {}
    for v in total.violations:
        sig = v["signature"]
        by_sig.setdefault(sig, [])
        if len(by_sig[sig]) < 3:
            by_sig[sig].append(
                {
                    "property": cid,
                    "engine": "P",
                    "family": v["family"],
                    "tier": tier,
                    "signature": sig,
                    "values": v["values"],
                    "detail": v["detail"],
                    "plant": plant,
                }
            )
    for o in obligations:
        if o.status == "violated":
            sig = o.signature or o.name
            by_sig.setdefault(sig, [])
            if len(by_sig[sig]) < 3:
                payload = dict(o.replay or {})
                payload.update({"property": cid, "engine": o.engine, "obligation": o.name, "signature": sig, "detail": o.detail, "plant": plant, "tier": tier})
                by_sig[sig].append(payload)

    sig_count = {s: 0 for s in by_sig}
    for s_, n_ in total.violation_counts.items():
        sig_count[s_] = sig_count.get(s_, 0) + n_
    for o in obligations:
        if o.status == "violated":
            sig_count[o.signature or o.name] += 1

    if os.environ.get("VCHECK_DUMP_SIGS"):
        # development aid: every signature met, with its number of paths and whether a known finding matches
        for s_ in sorted(sig_count):
            k_ = match_known(cid, s_, known)
            print(f"SIG {sig_count[s_]:7d} {'known' if k_ is not None else 'NEW  '} {s_}")
    confirmed: dict[str, str] = {}
    unreproduced: list[str] = []
    skipped: list[str] = []
    lines: list[str] = []
    new_violation = False
    known_printed: list[str] = []

    def _confirm(sig: str) -> tuple[str, str | None, str]:
        last = ""
        for payload in by_sig[sig]:
            path = write_replay(cid, payload)
            env_plant = {"VCHECK_PLANT": plant} if plant else {}
            os.environ.update(env_plant)
            ok, out = confirm_replay(cid, path)
            last = out
            if ok:
                return sig, path, out
            try:
                os.remove(path)
            except OSError:
                pass
        return sig, None, last

    sigs = sorted(by_sig)
    # every signature that no open known finding matches is replayed (up to MAX_CONFIRM); of the
    # signatures matching a known finding at most two per finding are replayed
    new_sigs = [s_ for s_ in sigs if match_known(cid, s_, known) is None]
    per_entry: dict[int, int] = {}
    known_sigs = []
    for s_ in sigs:
        k_ = match_known(cid, s_, known)
        if k_ is not None:
            per_entry[id(k_)] = per_entry.get(id(k_), 0) + 1
            if per_entry[id(k_)] <= 2:
                known_sigs.append(s_)
    to_confirm = new_sigs[:MAX_CONFIRM] + known_sigs
    skipped = new_sigs[MAX_CONFIRM:]
    printed_entries: set[int] = set()
    if to_confirm:
        from concurrent.futures import ThreadPoolExecutor

        with ThreadPoolExecutor(max_workers=min(8, len(to_confirm))) as ex:
            for sig, path, out in ex.map(_confirm, to_confirm):
                if path is None:
                    unreproduced.append(sig)
                    errors.append(f"counterexample for {sig} did not reproduce on replay: {out[-500:]}")
                    continue
                confirmed[sig] = path
                k = match_known(cid, sig, known)
                if k is not None:
                    # known findings keep no replay file around; one line per finding
                    if id(k) not in printed_entries:
                        printed_entries.add(id(k))
                        matching = [s_ for s_ in sigs if match_known(cid, s_, known) is k]
                        n_occ = sum(sig_count[s_] for s_ in matching)
                        line = f"KNOWN-FINDING: property={cid} {k.get('what', sig)} [replayed signature={sig}; {len(matching)} matching signature(s), {n_occ} path(s)/obligation(s)]"
                        known_printed.append(line)
                        lines.append(line)
                    try:
                        os.remove(path)
                    except OSError:
                        pass
                else:
                    new_violation = True
                    lines.append(f"VIOLATION property={cid} replay={path}")
                    lines.append(f"  signature={sig} occurrences={sig_count[sig]}")
                    det = json.dumps(_jsonable(by_sig[sig][0].get("detail")))
                    lines.append(f"  detail={det[:1500]}")

    inconclusive = [o for o in obligations if o.status in ("inconclusive", "error")]
    for o in inconclusive:
        errors.append(f"obligation {o.name} [{o.engine}] {o.status}: {json.dumps(_jsonable(o.detail))[:400]}")
    if total.timeouts:
        errors.append(f"{total.timeouts} path(s) hit the per-path watchdog (inconclusive): {total.timeout_scenarios[:2]}")

    wall = time.time() - t0
    n_obl = len(obligations)
    n_dis = sum(1 for o in obligations if o.status == "discharged")

    if not quiet:
        for ln in lines:
            print(ln)
        if skipped:
            print(f"note: {len(skipped)} further violation signature(s) not replayed (cap {MAX_CONFIRM}): {skipped[:5]}")
        for e in errors:
            print(f"HARNESS-ERROR check={cid}: {e}", file=sys.stderr)
        print(
            f"{cid} tier={tier}: P paths={total.paths} completed={total.completed} exhausted={total.exhausted} "
            f"solver_checks={total.solver_checks} solver_s={total.solver_s:.1f}; obligations={n_dis}/{n_obl} discharged; "
            f"violations(new)={sum(1 for s in confirmed if match_known(cid, s, known) is None)} known={len(known_printed)} wall={wall:.1f}s"
        )

    if write_evidence and not plant:
        samples = list(total.samples[:8])
        for o in obligations[:6]:
            samples.append({"obligation": o.name, "engine": o.engine, "status": o.status, "seconds": round(o.seconds, 2)})
        if not samples:
            samples = [{"note": "no sample recorded"}]
        ev = {
            "property_id": cid,
            "tier": tier,
            "seed": seed,
            "level": "model_checking",
            "coverage": {
                "states": max(1, total.completed + n_obl),
                "transitions": max(1, total.solver_checks + sum(o.queries for o in obligations)),
                "traces_validated_against_impl": total.completed,
                "samples": _jsonable(samples),
                "evaluations": max(1, total.paths + n_obl),
                "distinct_nontrivial": len(total.distinct) + n_dis,
                "rule": spec.rule,
                "exhaustive": bool(total.exhausted and not inconclusive and not errors),
                "explanation": "bounded symbolic checking of the real code: symx paths (z3 decides every branch on a symbolic input; decision tree explored depth first until exhausted) plus CrossHair / SMT obligations; see bounds",
                "engines": sorted(({"P"} if families else set()) | {o.engine for o in obligations}),
                "symbolic_variables": spec.variables,
                "functions_encoded": describe_functions(spec.functions),
                "bounds": _jsonable(spec.bounds),
                "outside_the_bounds": spec.outside,
                "paths": total.paths,
                "paths_completed": total.completed,
                "paths_cut_by_assume": total.aborted,
                "paths_timed_out": total.timeouts,
                "decision_tree_exhausted": total.exhausted,
                "max_decision_depth": total.max_depth,
                "solver_queries": total.solver_checks + sum(o.queries for o in obligations),
                "solver_seconds": round(total.solver_s + sum(o.seconds for o in obligations), 2),
                "obligations": n_obl,
                "discharged": n_dis,
                "obligation_results": [
                    {"name": o.name, "engine": o.engine, "status": o.status, "seconds": round(o.seconds, 2), "solver": o.solver}
                    for o in obligations
                ],
                "families": per_family,
                "counters": total.counters,
                "stubs": spec.stubs,
                "known_findings_printed": known_printed,
                "violation_signatures": {s: sig_count[s] for s in sigs},
                "harness_errors": errors[:10],
            },
            "assumptions": spec.assumptions,
            "wall_s": round(wall, 2),
            "violations": sum(1 for s in confirmed if match_known(cid, s, known) is None),
        }
        os.makedirs(EVIDENCE_DIR, exist_ok=True)
        with open(os.path.join(EVIDENCE_DIR, f"{cid}.json"), "w") as f:
            json.dump(ev, f, indent=1, sort_keys=True)
            f.write("\n")

    run_check.last = {  # type: ignore[attr-defined]
        "confirmed": confirmed,
        "known": known_printed,
        "errors": errors,
        "new_violation": new_violation,
        "total": total,
        "obligations": obligations,
    }
    if new_violation:
        return 1
    if errors:
        return 3
    return 0


def selftest(mod: Any, cid: str, tier: str, seed: int, workers: int | None) -> int:
    """Vacuity guard: every planted bug must make the check report a new violation."""
    plants = getattr(mod, "PLANTED", {})
    if not plants:
        print(f"{cid}: no planted bugs declared")
        return 3
    bad = 0
    for name in plants:
        p = subprocess.run(
            [sys.executable, "-m", "vcheck", cid, "--tier", tier, "--no-evidence"],
            capture_output=True,
            text=True,
            cwd=VERIF,
            env={**os.environ, "VCHECK_PLANT": name},
        )
        caught = p.returncode == 1 and "VIOLATION" in p.stdout
        print(f"selftest {cid} plant={name}: {'caught' if caught else 'MISSED'} (exit {p.returncode})")
        if not caught:
            bad += 1
            print(p.stdout[-1500:])
            print(p.stderr[-1500:])
    return 0 if bad == 0 else 3
