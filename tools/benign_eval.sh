#!/bin/sh
# tools/benign_eval.sh <worktree> <patch file> <check id>...
# Applies a behaviour-preserving patch to a scratch worktree (clean tree first), runs the test suite and
# the quick tier of the given checks against that worktree (VCHECK_REPO; /repo untouched), and restores
# the worktree.  Every check is expected to exit 0: anything else is a false alarm or a fragile harness.
WT="$1"; P="$2"; shift 2
cd "$WT" || exit 2
git checkout -q -- src && git apply "$P" || { echo "$P: does not apply"; exit 2; }
T=$(PYTHONPATH="$WT/src" /venv/bin/python -m pytest -q -p no:cacheprovider -x 2>&1 | tail -1)
echo "== $P tests[$T]"
for c in "$@"; do
  LOG=/tmp/benign_$(basename "$WT")_$(basename "$P" .diff)_$c.log
  ( cd /verif && VCHECK_REPO="$WT" ./check "$c" --tier quick --no-evidence > "$LOG" 2>&1 ); rc=$?
  echo "   $c exit=$rc $(grep -c '^VIOLATION' "$LOG") violation(s) $(grep -m2 'signature=\|HARNESS-ERROR' "$LOG" | tr '\n' ' ' | cut -c1-260)"
done
git checkout -q -- src
