#!/usr/bin/env python3
"""Regenerates /verif/MANIFEST.json from tools/manifest_data.py and validates it."""
import json
import os
import sys

HERE = os.path.dirname(os.path.dirname(os.path.abspath(__file__)))
sys.path.insert(0, os.path.join(HERE, "tools"))
import manifest_data as D  # noqa: E402

checks = []
for cid, c in sorted(D.CHECKS.items()):
    checks.append(
        {
            "property_id": cid,
            "quick_cmd": f"./check {cid} --tier quick",
            "thorough_cmd": f"./check {cid} --tier thorough",
            "evidence_file": f"/verif/evidence/{cid}.json",
            "replay_cmd_template": f"./check {cid} --replay {{path}}",
            "engine": c["engine"],
            "level_claimed": {"category": "model_checking", "text": c["text"], "design_ref": c["design_ref"]},
            "level_note": c["note"],
            "technique": c["technique"],
        }
    )
manifest = {
    "version": 1,
    "setup_cmd": "sh ./setup.sh",
    "hooks": {
        "guard": "PYOAK_VERIF",
        "enable": "no source hooks exist: all stubs are applied from the harness side by rebinding module globals at run time; the guard name is reserved and unused",
        "baseline_off_cmd": "cd /repo && /venv/bin/python -m pytest -ra -q -p no:cacheprovider --timeout=900 --continue-on-collection-errors",
        "source_commits": [],
        "add_only": True,
    },
    "engines": D.ENGINES,
    "checks": checks,
    "notes": D.NOTES,
    "not_applicable": [{"property_id": k, "reason": v} for k, v in sorted(D.NOT_APPLICABLE.items())],
}
with open(os.path.join(HERE, "MANIFEST.json"), "w") as f:
    json.dump(manifest, f, indent=1)
    f.write("\n")
try:
    import jsonschema

    schema = json.load(open("/root/.vp/MANIFEST.schema.json"))
    jsonschema.validate(manifest, schema)
    props = [json.loads(l)["id"] for l in open(os.path.join(HERE, "properties.jsonl"))]
    claimed = {c["property_id"] for c in checks}
    na = set(D.NOT_APPLICABLE)
    assert claimed | na == set(props) and not (claimed & na), (sorted(claimed), sorted(na))
    print("MANIFEST.json valid;", len(checks), "checks,", len(na), "not applicable")
except ImportError:
    print("jsonschema not available; not validated")
