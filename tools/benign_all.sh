#!/bin/sh
# tools/benign_all.sh [area]  -- applies every kept behaviour-preserving change (benign/<area>/<flavour>.diff,
# written by sub-agents as correct refactorings / optimisations of mishamsk/pyoak) to a scratch worktree of
# /repo's HEAD and runs the quick tier of the checks that execute or encode the touched code against it.
# Every line must say exit=0: anything else is a false alarm (exit 1) or a fragile harness (exit 3).
cd "$(dirname "$0")/.."
WT=/tmp/benignall.$$
git -C /repo worktree add --detach "$WT" HEAD -q || exit 2
trap 'git -C /repo worktree remove --force "$WT" >/dev/null 2>&1' EXIT
checks_for() {
  case "$1" in
    node) echo "C01 C02 C03 C05 C06 C09 C10 C13 C14 C20";;
    codegen) echo "C01 C05 C12 C13 C09 C14";;
    match) echo "C07 C08 C10";;
    serialize) echo "C04 C16 C10 C03";;
    legacy) echo "C18 C19 C20";;
    misc) echo "C09 C06 C15 C10";;
  esac
}
for d in benign/${1:-*}/; do
  area=$(basename "$d")
  for p in "$d"*.diff; do
    tools/benign_eval.sh "$WT" "$PWD/$p" $(checks_for "$area")
  done
done
