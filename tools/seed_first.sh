#!/bin/sh
# tools/seed_first.sh <round dir, e.g. /tmp/s8> <property id> [round tag, e.g. r8]
# Validates a sub-agent's seeded change inside its own scratch worktree (<round dir>/<id>, change applied,
# deliverables in seed_out/): tests pass with it, demo exits 1 with it and 0 without it; then runs the quick
# check of the property against that worktree (VCHECK_REPO, /repo is not touched) and copies the
# deliverables to /verif/seeded/<id>-<tag>/ with a first-result record.
R="$1"; ID="$2"; TAG="${3:-r8}"
WT="$R/$ID"; OUT="$WT/seed_out"
[ -f "$OUT/patch.diff" ] && [ -f "$OUT/demo.py" ] || { echo "$ID: deliverables missing"; exit 2; }
cd "$WT" || exit 2
git checkout -q -- src && git apply "$OUT/patch.diff" || { echo "$ID: patch does not apply to a clean checkout"; exit 2; }
T=$(PYTHONPATH="$WT/src" /venv/bin/python -m pytest -q -p no:cacheprovider -x 2>&1 | tail -1)
( PYTHONPATH="$WT/src" timeout 120 /venv/bin/python "$OUT/demo.py" >/dev/null 2>&1 ); DW=$?
git checkout -q -- src
( PYTHONPATH="$WT/src" timeout 120 /venv/bin/python "$OUT/demo.py" >/dev/null 2>&1 ); DO=$?
git apply "$OUT/patch.diff"
LOG=/tmp/seed_first_$ID.log
( cd /verif && VCHECK_REPO="$WT" ./check "$ID" --tier quick --no-evidence > "$LOG" 2>&1 ); RC=$?
SIGS=$(grep 'signature=' "$LOG" | sed 's/.*signature=\([^ ]*\).*/\1/' | sort -u | head -8 | tr '\n' ' ')
echo "$ID: tests[$T] demo_with=$DW demo_without=$DO check_exit=$RC violations=$(grep -c '^VIOLATION' "$LOG") sigs: $SIGS"
D=/verif/seeded/$ID-$TAG; mkdir -p "$D"
cp "$OUT/patch.diff" "$OUT/demo.py" "$D/"; [ -f "$OUT/notes.txt" ] && cp "$OUT/notes.txt" "$D/"
printf '{"tests":"%s","demo_with":%s,"demo_without":%s,"first_exit":%s,"first_sigs":"%s"}\n' "$T" "$DW" "$DO" "$RC" "$SIGS" > "$D/first.json"
