#!/bin/sh
# tools/run_all.sh [quick|thorough]  -- runs every claimed check one after another, prints one line each
TIER="${1:-quick}"
cd "$(dirname "$0")/.."
for c in C01 C02 C03 C04 C05 C06 C07 C08 C09 C10 C12 C13 C14 C15 C16 C18 C19 C20; do
  s=$(date +%s)
  ./check $c --tier "$TIER" > /tmp/run_all_$c.log 2>&1; rc=$?
  e=$(date +%s)
  echo "$c exit=$rc wall=$((e-s))s $(grep -c '^KNOWN-FINDING' /tmp/run_all_$c.log) known, $(grep -c '^VIOLATION' /tmp/run_all_$c.log) violation(s) | $(tail -1 /tmp/run_all_$c.log | cut -c1-150)"
done
