#!/bin/sh
# tools/seed_triage.sh <worktree with the change applied> <check id>
# development aid: runs a check's quick tier against a scratch worktree (VCHECK_REPO) without
# touching /repo -- used while /repo is busy; tools/seed_eval.sh / seed_all.sh remain the reference
WT="$1"; c="$2"
( cd /verif && VCHECK_REPO="$WT" ./check "$c" --tier quick --no-evidence > /tmp/seed_triage_$c.log 2>&1 ); rc=$?
echo "check $c on $WT: exit $rc  $(grep -c '^VIOLATION' /tmp/seed_triage_$c.log) violation line(s): $(grep -m2 'signature=' /tmp/seed_triage_$c.log | tr '\n' ' ' | cut -c1-220)"
