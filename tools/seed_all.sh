#!/bin/sh
# tools/seed_all.sh -- applies every kept seeded change to /repo in turn, runs the quick check of
# its property, undoes it, and prints one line per seed (exit 1 = reported as VIOLATION).
cd "$(dirname "$0")/.."
for d in seeded/*/; do
  id=$(basename "$d"); c=${id%%-*}
  git -C /repo apply "$PWD/$d/patch.diff" 2>/dev/null || { echo "$id: patch does not apply"; continue; }
  ./check "$c" --tier quick --no-evidence > /tmp/seed_all_$id.log 2>&1; rc=$?
  git -C /repo checkout -- .
  echo "$id check=$c exit=$rc violations=$(grep -c '^VIOLATION' /tmp/seed_all_$id.log) $(grep -m1 'signature=' /tmp/seed_all_$id.log | cut -c1-120)"
done
git -C /repo status --short | head -3
