ENGINES = [
    {"name": "symx (engine P)", "path": "/verif/symx", "serves_properties": [], "kind_free_text": "path-forking symbolic executor on the z3 Python API: real pyoak code runs natively on SymBool/SymInt proxies; z3 decides the feasible outcomes of every branch on a symbolic input; depth-first exhaustion of the decision tree; counterexample = z3 model, replayed with plain values"},
    {"name": "CrossHair (engine X)", "path": "/verif/xh", "serves_properties": [], "kind_free_text": "crosshair-tool 0.0.110 (z3 inside): PEP-316 contracts over the real functions with symbolic int/str/list arguments, one process per obligation"},
    {"name": "src2smt (engine Z)", "path": "/verif/src2smt", "serves_properties": [], "kind_free_text": "partial evaluator over the Python AST of ASTNode.__post_init__ emitting SMT-LIB2 (QF_SLIA) for the digest pre-image; cvc5 primary, z3 cross-check"},
]
NOTES = "All checks: ./check <ID> --tier quick|thorough; exit 0 held / 1 replayed violation / 3 harness error or inconclusive. See DESIGN.md."
_PENDING = "check not built yet in this session (work in progress; see DESIGN.md section 4 for the intended design)"
CHECKS = {
    "C05": {
        "engine": "symx (engine P)",
        "technique": "bounded symbolic execution of the real traversals (z3-decided path forking; lazy symbolic prune/filter bit per position) against a recipe-derived reference",
        "text": "For every tree shape up to the bound and EVERY prune/filter predicate (one symbolic boolean per position, forked by z3 only where the code consults it), dfs pre/post, bfs, gather and the child accessors equal the reference streams; decision tree exhausted. Bounded model checking of the real code, not a proof beyond the bounds.",
        "design_ref": "DESIGN.md section 4, C05",
        "note": "trusted: z3, symx engine, reference traversal oracle; predicates are functions of the position; trees <= 5 (quick) / 7 (thorough) nodes, depth <= 3, tuple width <= 3",
    },
    "C12": {
        "engine": "symx (engine P)",
        "technique": "bounded symbolic execution of the real exec-generated accessors with the five skip flags and sort_keys as lazy symbolic booleans (z3-decided forking) over generated class hierarchies",
        "text": "For every generated class hierarchy within the bound (1-3 levels, 10 field kinds, overrides, plain and postponed annotations), every queried class, every instance variant and EVERY combination of the skip flags / sort_keys that the generated code can distinguish, all eight accessors equal the oracle computed from the class recipe; first-use order varied on freshly created classes. Decision tree exhausted.",
        "design_ref": "DESIGN.md section 4, C12",
        "note": "trusted: z3, symx, the recipe oracle, Python's dataclass field ordering rule (re-implemented in models/classgen.flatten); classes beyond the bound are outside the claim",
    },
    "C03": {
        "engine": "symx (engine P) + CrossHair (engine X)",
        "technique": "bounded symbolic exploration of operation histories on the real registry code (symx decision tree over operation/receiver/argument selectors, lazy symbolic `strict`) with a ghost-state oracle checked after every step; CrossHair symbolic execution (z3) of the real _get_next_unique_id (both node families) against an arbitrary symbolic set of registered collision suffixes",
        "text": "Every history of K public operations (construct, parent, duplicate, dataclasses.replace, ASTNode.replace succeeding/raising, detach, detach_self on live or stale receivers, as_dict/as_obj, drop) within the bound, under ID_DIGEST_SIZE 1 and 8, keeps the registry equal to the ghost state after every step; payloads may outlive their node and be read back while a node of an unrelated class holds the id. X: for every set of up to 3 registered suffixes (1..5, gaps included) the id handed out is free and is the base or its least free suffix. For selector-only harnesses the all-paths verdict coincides with exhaustive bounded enumeration of histories (stated in DESIGN.md section 6).",
        "design_ref": "DESIGN.md section 4, C03",
        "note": "trusted: symx, ghost-state oracle (appendix A.5), CPython refcounting; bounds: K<=4 all / K=5 partially (quick), K<=5 all / K=6 partially (thorough), <=4 handles, two node classes",
    },
    "C15": {
        "engine": "CrossHair (engine X) + symx (engine P)",
        "technique": "CrossHair symbolic execution (z3) of the real CodePoint/CodeRange/CodeOrigin methods over unbounded symbolic integers and symbolic text, one PEP-316 obligation per law with reachability twin; symx exploration of origin tuples for the flattening rules",
        "text": "Interval laws (validation, containment partial order, symmetric overlap incl. touching, before-relations, hull contains/commutative/associative/idempotent) are 'Confirmed over all paths' for ALL integers; the hull-merge / get_raw slice law for all texts up to 3-4 characters; the flat multi-origin rules for every tuple of up to 3 (quick) / 4 (thorough) origins from a pool of 21 operands of every kind.",
        "design_ref": "DESIGN.md section 4, C15",
        "note": "trusted: CrossHair's int/str model, z3, the consistent index->(line,column) map for hull equality; rejection messages render integers, so those two obligations are range-bounded",
    },
    "C13": {
        "engine": "CrossHair (engine X) + symx (engine P)",
        "technique": "CrossHair symbolic execution (z3) of the real is_instance with a symbolic value per annotation against an independently written conformance relation; symx exploration of pool values and whole constructions with config.RUNTIME_TYPE_CHECK as a lazy symbolic boolean",
        "text": "For each of 48 (quick) / 62 (thorough) annotations, is_instance(v, T) == conforms(v, T) is 'Confirmed over all paths' for ALL values v of int|bool|float|str|None and tuples of them (length <= 3; nested 2x2), with reachability twins; pool pairs with nodes/enums/lists/paths and constructions with one or two deviating fields give exactly the non-conforming invalid_fields, and the switch-off node equals the switch-on node.",
        "design_ref": "DESIGN.md section 4, C13",
        "note": "trusted: CrossHair's value models, z3, oracles/typing_conf.py (skips pairs on which the statement is silent: bool offered to float, Literal membership across types)",
    },
    "C07": {
        "engine": "CrossHair (engine X) + symx (engine P)",
        "technique": "CrossHair symbolic execution (z3) of the xpath parsing/matching kernels (index digits, element matching, anywhere assembly) over symbolic digits, indices, field names and element lists; symx exploration of grammar-derived xpaths x trees against a reference evaluator",
        "text": "Index parsing is confirmed for all digit lists up to 4 digits, element matching for all indices / field names (unbounded ints, names <= 3 chars), the `anywhere` assembly for all element lists up to 5; for every generated xpath (1-3 | 1-4 steps) on 13 trees findall == {n | match} == reference, each node once, find == first. The compiled half has only selectors: its all-paths verdict equals bounded enumeration (DESIGN.md section 6).",
        "design_ref": "DESIGN.md section 4, C07",
        "note": "trusted: CrossHair, z3, symx, oracles/xpath_ref.py (appendix A.3); lark runs concretely on each generated text",
    },
    "C20": {
        "engine": "symx (engine P) + CrossHair (engine X)",
        "technique": "bounded symbolic execution of legacy dfs/bfs/gather with lazy symbolic prune/filter bits per node and lazy skip_self/bottom_up/exact_type; legacy xpath match against the reference evaluator along the parent chain; CrossHair on the legacy index parsing and anywhere assembly",
        "text": "For every legacy tree within the bound and every prune/filter predicate (one symbolic boolean per node), legacy traversals equal the reference streams including the start-node rule; legacy ASTXpath.match equals the documented semantics for every generated xpath on 8 attached trees (lists longer than 10 included); calculate_xpath spells every chain; a pool of malformed texts raises only the definition error.",
        "design_ref": "DESIGN.md section 4, C20",
        "note": "trusted: symx, CrossHair, z3, reference traversal and xpath oracles; bounds in evidence",
    },
    "C08": {
        "engine": "CrossHair (engine X) + symx (engine P)",
        "technique": "CrossHair symbolic execution (z3) of the real matcher classes over symbolic-length sequences, ints and strings; symx exploration of grammar-derived patterns x nodes x cache states against a reference matcher with identity-compared captures",
        "text": "Sequence length / tail / capture rules hold for ALL int sequences up to length 5, value / variable equality for all ints and short strings, regex anchoring for all strings up to 4 chars (CrossHair 'Confirmed over all paths'); every generated pattern (class alternatives, field specs, nested patterns to depth 3, sequences 0-3 with and without tail, captures, variables) on 45 nodes under cold / warm / interleaved cache agrees with the reference in verdict and in the identity of every captured object; MultiPatternMatcher returns the first matching rule for every ordered rule selection. Compiled half: selectors only.",
        "design_ref": "DESIGN.md section 4, C08",
        "note": "trusted: CrossHair, z3, symx, oracles/pattern_ref.py (appendix A.4); strings never offered to sequence specs; non-compiling grammatical patterns counted, not judged",
    },
    "C01": {
        "engine": "src2smt (engine Z) + symx (engine P)",
        "technique": "source-to-SMT: partial evaluation of the current ASTNode.__post_init__ into a QF_S string term for the digest pre-image (real generated accessors answer on a skeleton instance), injectivity / separation / type-tag obligations discharged by cvc5 with z3 cross-check, sat models replayed on the real constructor; plus symx exploration of single-edit tree pairs",
        "text": "For 14 model classes the content-id pre-image generated from the current source is injective in the comparable property values (all strings up to 24 | 40 code units, ALL integers via their canonical decimal rendering, bools, None) and in the child content ids for every pair of child layouts up to width 2 | 3, separates classes (identical layouts, prefix-related names), separates type tags, and mentions no origin / id / non-comparable variable (FRAME); the registry is an environment (every lookup under the symbolic id may miss or hit an arbitrary registered node): content_id is assigned from the node's own pre-image under every registry answer, and where the code copies a registered node's digest the solver is asked for two nodes with equal id pre-images and different content pre-images (REGDEP; a model is replayed with the first node kept registered); the one satisfiable obligation family is the known separator collision, whose complement (strings without ')') is proved unsat. Single edits of base recipes and all small pairs agree with structural equality.",
        "design_ref": "DESIGN.md section 4, C01",
        "note": "trusted: cvc5 1.4.0 / z3 5.1.0, the partial evaluator (validated on every run against the real __post_init__ with blake2b's input recorded), H injective (no blake2b collisions), UTF-8 injective, hexdigest format of child ids",
    },
    "C02": {
        "engine": "symx (engine P)",
        "technique": "symbolic execution of the real __eq__ with one unbounded z3 integer origin key per position (user-defined origins whose equality is key equality: z3 decides every origin comparison under the path condition, the oracle verdict is the conjunction term, symmetry / transitivity follow by integer reasoning); plus bounded exploration (symx selectors) of tree pairs over a pool of real origins, value pairs, shared objects and operation histories for the hash clause",
        "text": "For every base tree within the bound, every position, every pair of origins from a pool of 8 (incl. equal-but-distinct copies), same-position and moved variants: ==, its mirror, != agree with the oracle, hash is constant; all small pairs; 22^3 triples for transitivity; foreign comparands. Data-symbolic: for every tree shape in the bound and EVERY assignment of integer origin keys to the positions of x, y (and z), == / mirrored == / != agree with 'equal keys at every position' and the relation is transitive. hash(node), self-equality and set / dict membership survive every history of 1-2 operations of C10's alphabet. The pool families are selectors only (DESIGN.md section 6).",
        "design_ref": "DESIGN.md section 4, C02",
        "note": "trusted: symx, structural oracle of C01, origin key equality; origin integers cannot stay symbolic (ids render origin.fqn at construction) - origin equality over all integers is C15",
    },
    "C04": {
        "engine": "symx (engine P) + CrossHair (engine X)",
        "technique": "bounded exploration (symx selectors) of tree x value variant x outside twins x prehistory x format x source optimisation x liveness-at-read-time, against a snapshot taken before serialization; CrossHair symbolic execution (z3) of as_dict / as_obj round trips of code points, ranges, code origins (unbounded symbolic integers) and XML origins (symbolic path strings) through pyoak's hooks and mashumaro's generated code",
        "text": "Every combination within the bound round-trips position by position (identity for live originals, otherwise class/id/content_id/all property values/origin equal, registered, singletons restored, shared nodes shared again), for dict, JSON, MessagePack and YAML, with and without index-based sources, with all / none / each single subtree of the originals alive, also after an earlier equal version of the tree was written. X: code points, code ranges, code origins and XML origins round-trip through the dict front-end for ALL integers / all paths up to 4 characters. Node values are pool values because no engine keeps data symbolic through the digest and the C serializers.",
        "design_ref": "DESIGN.md section 4, C04",
        "note": "trusted: symx, snapshot oracle; registry clearing stands in for a fresh process",
    },
    "C06": {
        "engine": "symx (engine P)",
        "technique": "bounded symbolic exploration of Tree queries over all zoo shapes (selectors) with lazy symbolic exact_type / check_ancestor, against the recipe-derived parent map",
        "text": "For ALL tree shapes up to 6 (quick) / 7 (thorough) nodes, with distinct and with content-identical leaves, every node, ordered pair and member twin as query argument: every Tree query agrees with the downward structure; KeyError / ValueError as documented; get_xpath leads structurally back to the node and is unique.",
        "design_ref": "DESIGN.md section 4, C06",
        "note": "trusted: symx, recipe oracle; precondition of the statement (all registered, no repeated objects) is built in",
    },
    "C09": {
        "engine": "symx (engine P)",
        "technique": "bounded symbolic execution of the real accept / ASTTransformVisitor with lazily chosen rule actions (a symbolic choice consulted when the real code dispatches to a visit method) and lazy symbolic `strict`, against a reference bottom-up rewrite with identity map",
        "text": "For every tree within the bound, every method placement (own classes, base class only, leaf class only, inner only, none), strict and non-strict, and EVERY assignment of actions (descend/same/rewrite/replace/remove/raise) to the nodes the traversal reaches: dispatch, result shape, identity of untouched subtrees, newness of changed ancestors and non-modification of the input (also on raise) agree with the reference.",
        "design_ref": "DESIGN.md section 4, C09",
        "note": "trusted: symx, z3, reference rewrite (appendix A.2)",
    },
    "C10": {
        "engine": "symx (engine P)",
        "technique": "bounded exploration (symx selectors) of operation histories with a frame monitor: snapshot of every existing node before each of 34 public operations, compared afterwards; setattr/delattr on every class x field",
        "text": "Every history of K=2 (quick) / 3 (thorough) operations from 34 public operations on 5 trees with every node as target leaves every pre-existing node (including nodes created by earlier steps) bit-identical in all dataclass fields, id, content_id and hash; assignment and deletion raise for every field of every model class. Selectors only.",
        "design_ref": "DESIGN.md section 4, C10",
        "note": "trusted: symx, snapshot via object.__getattribute__; registry membership excluded as the statement allows",
    },
    "C14": {
        "engine": "symx (engine P)",
        "technique": "bounded exploration (symx selectors) of duplicate / ASTNode.replace / dataclasses.replace over trees, registration states, twins and field changes, with the expected id obtained from a fresh construction in a restored registry",
        "text": "duplicate() on ALL zoo shapes up to 5 (quick) / 7 (thorough) nodes plus shared-subtree and rich-property trees x twins x three registration states; replace on 8 bases x twin (both creation orders) x state x 3-9 single/two-field changes x both operations: every clause of the statement holds. Selectors only.",
        "design_ref": "DESIGN.md section 4, C14",
        "note": "trusted: symx, recipe oracle, experimental id oracle (appendix A.5)",
    },
    "C16": {
        "engine": "symx (engine P) + CrossHair (engine X)",
        "technique": "CrossHair obligations with symbolic SKIP_CLASS / SORT_KEYS and unbounded positions over the nested mappings of a range / a code origin; bounded symbolic execution of the real (de)serialization front-ends with every option a lazy symbolic boolean consulted per nested object and a lazy symbolic fault bit per nested hooked object (fault schedule), selectors for call kind / dialect / input corruption",
        "text": "For every call kind (4 serializers, 4 deserializers), dialect, corruption and EVERY value of the option bits and fault bits that the real code consults: nested mappings obey the options in force, and after the call - returned or raised - the option slots are clear and a default as_dict() equals the baseline. quick: one option-carrying call + default call; thorough: two.",
        "design_ref": "DESIGN.md section 4, C16",
        "note": "trusted: symx, z3, output walker; key order checked for all four front-ends",
    },
    "C18": {
        "engine": "symx (engine P)",
        "technique": "bounded exploration (symx selectors: forest, operation, receiver, argument per step) of legacy operation histories with the structural invariant checked on every attached node after every successful operation, content ids against an independently built equal tree, per-path watchdog",
        "text": "Every history of K=2 (quick) / 3 (thorough) operations out of 24 legacy operations over 3 initial forests (tuple, list, optional, required child fields) keeps the invariant of the statement, except the recorded known finding. Selectors only: equals bounded enumeration of histories.",
        "design_ref": "DESIGN.md section 4, C18",
        "note": "trusted: symx, invariant checker, rebuild oracle (appendix A.8); cycle-creating arguments cut by assume",
    },
    "C19": {
        "engine": "symx (engine P)",
        "technique": "same exploration as C18; whenever an operation raises a documented error a snapshot of all pre-existing nodes and of the registry taken before the call is compared with the state after",
        "text": "Every rejected operation instance reachable within K=2 (quick) / 3 (thorough) steps is checked for the frame condition; the rollback gaps found are recorded as known findings per (operation family, error class); any other rejected operation changing anything is a violation.",
        "design_ref": "DESIGN.md section 4, C19",
        "note": "trusted: symx, snapshot oracle; undocumented exceptions are counted, not judged",
    },
}
NOT_APPLICABLE = {
    "C11": "input is a class definition consumed by typing/abc introspection (get_origin/get_args/get_type_hints/issubclass): no engine can keep an annotation symbolic, every path would be one concrete class definition, i.e. enumeration of concrete runs rather than a solver verdict (DESIGN.md section 5)",
    "C17": "input is arbitrary text consumed by lark's LALR tables and re-based lexer: CrossHair realises the text character by character and symx would have to concretise the whole string before pyoak runs; every path would carry one concrete text (DESIGN.md section 5). The adjacent integer/flag kernels are checked under C07/C08/C20",
}
for _k in ["C01", "C02", "C03", "C04", "C06", "C07", "C08", "C09", "C10", "C12", "C13", "C14", "C15", "C16", "C18", "C19", "C20"]:
    if _k not in CHECKS:
        NOT_APPLICABLE[_k] = _PENDING
