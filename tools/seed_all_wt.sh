#!/bin/sh
# tools/seed_all_wt.sh [pattern]  -- like tools/seed_all.sh, but applies each kept seeded change to a scratch
# worktree of /repo's HEAD (VCHECK_REPO) instead of /repo itself, so that other runs against /repo are not
# disturbed.  Development aid; tools/seed_all.sh (apply to /repo, run, undo) remains the reference procedure.
cd "$(dirname "$0")/.."
WT=/tmp/seedall.$$
git -C /repo worktree add --detach "$WT" HEAD -q || exit 2
trap 'git -C /repo worktree remove --force "$WT" >/dev/null 2>&1' EXIT
for d in seeded/${1:-*}/; do
  id=$(basename "$d"); c=${id%%-*}
  git -C "$WT" checkout -q -- . 
  git -C "$WT" apply "$PWD/$d/patch.diff" 2>/dev/null || { echo "$id: patch does not apply"; continue; }
  VCHECK_STOP_AT_FIRST_VIOLATION=1 VCHECK_REPO="$WT" ./check "$c" --tier quick --no-evidence > /tmp/seed_all_$id.log 2>&1; rc=$?
  echo "$id check=$c exit=$rc violations=$(grep -c '^VIOLATION' /tmp/seed_all_$id.log) $(grep -m1 'signature=' /tmp/seed_all_$id.log | cut -c1-120)"
done
