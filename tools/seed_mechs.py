#!/usr/bin/env python3
"""tools/seed_mechs.py <property id>  -- prints what every kept seeded change of that property needs
in order to manifest (one line each); given to the sub-agents of the next round so that they look for
another mechanism."""
import glob, json, os, sys
pid = sys.argv[1]
for d in sorted(glob.glob(os.path.join(os.path.dirname(__file__), "..", "seeded", pid + "*", "meta.json"))):
    m = json.load(open(d))
    print("- " + " ".join(str(m.get("needs_to_manifest", "")).split()))
