#!/bin/sh
# tools/seed_eval.sh <dir with patch.diff + demo.py> <check id> [more check ids...]
# 1. validates the seeded change in a scratch worktree: tests pass, demo fails with / passes without it
# 2. applies it to /repo, runs the given checks (quick tier), and undoes it straight afterwards
set -u
D="$1"; shift
WT=/tmp/seedwt.$$
git -C /repo worktree add --detach "$WT" HEAD -q || exit 2
trap 'git -C /repo worktree remove --force "$WT" >/dev/null 2>&1; git -C /repo checkout -- . >/dev/null 2>&1' EXIT
( cd "$WT" && PYTHONPATH="$WT/src" /venv/bin/python "$D/demo.py" >/dev/null 2>&1 ); echo "demo without change: exit $?"
git -C "$WT" apply "$D/patch.diff" || { echo "patch does not apply"; exit 2; }
( cd "$WT" && PYTHONPATH="$WT/src" /venv/bin/python -m pytest -q -p no:cacheprovider 2>&1 | tail -1 )
( cd "$WT" && PYTHONPATH="$WT/src" /venv/bin/python "$D/demo.py" >/dev/null 2>&1 ); echo "demo with change: exit $?"
git -C /repo apply "$D/patch.diff" || exit 2
for c in "$@"; do
  ( cd /verif && ./check "$c" --tier quick --no-evidence > /tmp/seed_eval_$c.log 2>&1 ); rc=$?
  echo "check $c with change: exit $rc  $(grep -c '^VIOLATION' /tmp/seed_eval_$c.log) violation line(s): $(grep -m2 'signature=' /tmp/seed_eval_$c.log | tr '\n' ' ' | cut -c1-200)"
done
git -C /repo checkout -- .
git -C /repo status --short | head -3
