"""CrossHair harnesses for the integer / flag kernels of xpath parsing and matching
(C07; the legacy twins of index_spec live in c20_x.py)."""
from __future__ import annotations

from typing import List, Optional, Tuple

from pyoak.match.xpath import ASTXpathElement, XPathTransformer, _match_node_element, _NodeTraversalInfo
from pyoak.node import ASTNode

from xh.plant import maybe_plant

maybe_plant("C07")

_T = XPathTransformer()


class _F:
    """Stands in for a dataclass Field: only .name is read by the matcher."""

    def __init__(self, name: str) -> None:
        self.name = name


def index_no_digits() -> bool:
    """
    post: _
    """
    return _T.index_spec([]) == -1


def index_single_digit(d: int) -> bool:
    """
    pre: 0 <= d <= 9
    post: _
    """
    return _T.index_spec([str(d)]) == d


def index_multi_digit(ds: List[int]) -> bool:
    """
    pre: 2 <= len(ds) <= 4 and all(0 <= d <= 9 for d in ds)
    post: _
    """
    want = 0
    for d in ds:
        want = want * 10 + d
    return _T.index_spec([str(d) for d in ds]) == want


def element_index_handling(idx: int, has_field: bool, has_class: bool) -> bool:
    """
    pre: idx >= -1
    post: _
    """
    # element() turns the parser's -1 ("[]") into "no index constraint" and keeps every other index
    args: list = []
    if has_field:
        args.append("items")
    args.append(idx)
    if has_class:
        args.append(ASTNode)
    f, i, c = _T.element(args)
    return f == ("items" if has_field else None) and i == (None if idx == -1 else idx) and c is ASTNode


def match_element_semantics(pindex: Optional[int], findex: Optional[int], pfield: Optional[str], fname: Optional[str]) -> bool:
    """
    pre: (pindex is None or pindex >= 0) and (findex is None or findex >= 0)
    pre: (pfield is None or len(pfield) <= 3) and (fname is None or len(fname) <= 3)
    post: _
    """
    node = _NODE
    info = _NodeTraversalInfo(node, None if fname is None else node, None if fname is None else _F(fname), findex)
    el = ASTXpathElement(ASTNode, pfield, pindex, False)
    want = (pfield is None or (fname is not None and pfield == fname)) and (pindex is None or (findex is not None and pindex == findex))
    return _match_node_element(info, el) == want


def anywhere_assembly(empties: List[bool]) -> bool:
    """
    pre: 1 <= len(empties) <= 5 and not empties[-1]
    post: _
    """
    # empties[k] == True: the k-th parsed element is an empty one (from '//').  The reversed element
    # list must hold exactly the non-empty elements, each flagged `anywhere` iff at least one empty
    # element directly precedes it.
    args: List[Tuple[Optional[str], Optional[int], Optional[type]]] = []
    for k, emp in enumerate(empties):
        emp = True if emp else False
        args.append((None, None, None) if emp else (f"f{k}", k, ASTNode))
    got = _T.xpath(list(args))
    want = []
    prev_empty = False
    for k, emp in enumerate(empties):
        if emp:
            prev_empty = True
            continue
        want.append(ASTXpathElement(ASTNode, f"f{k}", k, prev_empty))
        prev_empty = False
    want.reverse()
    return list(got) == want


from models.zoo import VLeaf  # noqa: E402

_NODE = VLeaf(v=1)

QUICK = ["index_no_digits", "index_single_digit", "index_multi_digit", "element_index_handling", "match_element_semantics", "anywhere_assembly"]
SIGNATURES = {"index_multi_digit": "index-multi-digit"}
