"""CrossHair harnesses for the data-symbolic part of C04: origins, positions and code points with
UNBOUNDED symbolic integers / short symbolic strings through the dict front-end (as_dict / as_obj:
mashumaro's generated Python code and pyoak's hooks run symbolically; the JSON / MessagePack / YAML
front-ends hand the same dicts to C extensions and are exercised with pool values by engine P)."""
from __future__ import annotations

from pyoak.origin import (
    NO_ORIGIN, CodeOrigin, CodePoint, CodeRange, EntireSourcePosition, GeneratedCodeOrigin, MemoryTextSource, MultiOrigin, Origin, Position, Source, XMLFileOrigin, XMLPath,
)
from pyoak.serialize import TYPE_KEY, DataClassSerializeMixin

from xh.plant import maybe_plant

maybe_plant("C04")


def _reset() -> None:
    Source.clear_registry()
    setattr(DataClassSerializeMixin, "_DataClassSerializeMixin__serialization_options", {})
    setattr(DataClassSerializeMixin, "_DataClassSerializeMixin__mashumaro_dialect", None)


def codepoint_roundtrip(i: int, l: int, c: int) -> bool:
    """
    pre: i >= 0 and l >= 1 and c >= 0
    post: _
    """
    _reset()
    p = CodePoint(i, l, c)
    d = p.as_dict()
    q = CodePoint.as_obj(d)
    return q == p and q.index == i and q.line == l and q.column == c and d[TYPE_KEY] == "CodePoint"


def coderange_roundtrip(i: int, j: int, l: int, c: int) -> bool:
    """
    pre: 0 <= i <= j and l >= 1 and c >= 0
    post: _
    """
    _reset()
    r = CodeRange(CodePoint(i, l, c), CodePoint(j, l, c + (j - i)))
    q = Position.as_obj(r.as_dict())
    return type(q) is CodeRange and q == r and q.start.index == i and q.end.index == j and q.start.line == l and q.end.column == c + (j - i)


def code_origin_roundtrip(i: int, j: int, l: int, c: int) -> bool:
    """
    pre: 0 <= i <= j and l >= 1 and c >= 0
    post: _
    """
    _reset()
    src = MemoryTextSource(_raw="0123456789", source_uri="S")
    o = CodeOrigin(src, CodeRange(CodePoint(i, l, c), CodePoint(j, l, c + (j - i))))
    q = Origin.as_obj(o.as_dict())
    return type(q) is CodeOrigin and q == o and q.position.start.index == i and q.position.end.index == j and q.source == src and q.position.start.line == l


def xml_origin_roundtrip(path: str) -> bool:
    """
    pre: len(path) <= 4
    post: _
    """
    _reset()
    src = MemoryTextSource(_raw="<a/>", source_uri="X")
    o = XMLFileOrigin(src, XMLPath(path))
    q = Origin.as_obj(o.as_dict())
    return type(q) is XMLFileOrigin and q == o and q.position.xpath == path


def multi_origin_roundtrip(i: int, j: int, k: int) -> bool:
    """
    pre: 0 <= i <= j and j < k
    post: _
    """
    # a flat multi-origin over a code origin, a generated origin and an XML origin of two sources
    _reset()
    s1 = MemoryTextSource(_raw="0123456789", source_uri="S1")
    s2 = MemoryTextSource(_raw="<a/>", source_uri="S2")
    a = CodeOrigin(s1, CodeRange(CodePoint(i, 1, i), CodePoint(j, 1, j)))
    b = CodeOrigin(s1, CodeRange(CodePoint(k, 2, 0), CodePoint(k, 2, 0)))
    c = XMLFileOrigin(s2, XMLPath("/a"))
    m = MultiOrigin([a, b, c])
    q = Origin.as_obj(m.as_dict())
    return type(q) is MultiOrigin and q == m and len(q.origins) == 3 and q.origins[0].position.end.index == j and q.origins[1].position.start.index == k and NO_ORIGIN not in q.origins


def source_text_roundtrip(text: str, uri: str) -> bool:
    """
    pre: len(text) <= 3 and len(uri) <= 3
    post: _
    """
    _reset()
    src = MemoryTextSource(_raw=text, source_uri=uri)
    o = CodeOrigin(src, EntireSourcePosition()) if False else GeneratedCodeOrigin(src)
    q = Origin.as_obj(o.as_dict())
    return type(q) is GeneratedCodeOrigin and q == o and q.source.source_uri == uri and q.source.get_raw() == text


# multi_origin_roundtrip and source_text_roundtrip are kept for reference but not registered: CrossHair
# 0.0.110 ends the first with an internal error (repr of a symbolic int inside MultiOrigin.__post_init__) and
# reports a counterexample for the second that does not reproduce on plain values (its symbolic str fails
# mashumaro's isinstance test) -- both would be inconclusive, never a verdict
QUICK = ["codepoint_roundtrip", "coderange_roundtrip", "code_origin_roundtrip", "xml_origin_roundtrip"]
SIGNATURES = {n: f"x-counterexample:{n}" for n in QUICK}
