"""Applies a planted bug (selftest) inside CrossHair subprocesses: the harness
modules call maybe_plant(<check id>) at import time."""
import importlib
import os


def maybe_plant(cid: str) -> None:
    name = os.environ.get("VCHECK_PLANT")
    if not name:
        return
    mod = importlib.import_module(f"checks.{cid}")
    plants = getattr(mod, "PLANTED", {})
    if name in plants:
        plants[name]()
