"""CrossHair harness for C16: the option flags as symbolic booleans and the positions as unbounded
symbolic integers through as_dict() of a nested position (three nested mappings), followed by a
default call."""
from __future__ import annotations

from pyoak.origin import CodeOrigin, CodePoint, CodeRange, MemoryTextSource, Source
from pyoak.serialize import TYPE_KEY, DataClassSerializeMixin, SerializationOption

from xh.plant import maybe_plant

maybe_plant("C16")


def _reset() -> None:
    Source.clear_registry()
    setattr(DataClassSerializeMixin, "_DataClassSerializeMixin__serialization_options", {})
    setattr(DataClassSerializeMixin, "_DataClassSerializeMixin__mashumaro_dialect", None)


def _rule(m: dict, skip_class: bool, sort_keys: bool) -> bool:
    keys = list(m)
    if skip_class:
        if TYPE_KEY in m:
            return False
    elif TYPE_KEY not in m:
        return False
    if sort_keys:
        rest = [k for k in keys if k != TYPE_KEY]
        if rest != sorted(rest) or (not skip_class and keys[0] != TYPE_KEY):
            return False
    return True


def range_options(i: int, j: int, skip_class: bool, sort_keys: bool) -> bool:
    """
    pre: 0 <= i <= j
    post: _
    """
    _reset()
    r = CodeRange(CodePoint(i, 1, i), CodePoint(j, 1, j))
    d = r.as_dict(serialization_options={SerializationOption.SKIP_CLASS: skip_class, SerializationOption.SORT_KEYS: sort_keys})
    ok = all(_rule(m, skip_class, sort_keys) for m in (d, d["start"], d["end"]))
    after = r.as_dict()
    return ok and d["start"]["index"] == i and d["end"]["index"] == j and all(_rule(m, False, False) for m in (after, after["start"], after["end"]))


def origin_options(i: int, j: int, skip_class: bool, sort_keys: bool) -> bool:
    """
    pre: 0 <= i <= j
    post: _
    """
    _reset()
    o = CodeOrigin(MemoryTextSource(_raw="0123456789", source_uri="S"), CodeRange(CodePoint(i, 1, i), CodePoint(j, 1, j)))
    d = o.as_dict(serialization_options={SerializationOption.SKIP_CLASS: skip_class, SerializationOption.SORT_KEYS: sort_keys})
    nested = (d, d["source"], d["position"], d["position"]["start"], d["position"]["end"])
    ok = all(_rule(m, skip_class, sort_keys) for m in nested)
    after = o.as_dict()
    nested_after = (after, after["source"], after["position"], after["position"]["start"], after["position"]["end"])
    return ok and d["position"]["end"]["index"] == j and all(_rule(m, False, False) for m in nested_after)


QUICK = ["range_options", "origin_options"]
SIGNATURES = {n: f"x-counterexample:{n}" for n in QUICK}
