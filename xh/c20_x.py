"""CrossHair harnesses for the legacy xpath parsing kernels (C20)."""
from __future__ import annotations

import warnings
from typing import List

warnings.simplefilter("ignore", DeprecationWarning)

from pyoak.legacy.match.xpath import ASTXpathAnywhereElement, ASTXpathElement, XPathTransformer  # noqa: E402
from pyoak.legacy.node import AwareASTNode  # noqa: E402

from xh.plant import maybe_plant  # noqa: E402

maybe_plant("C20")

_T = XPathTransformer()


def legacy_index_no_digits() -> bool:
    """
    post: _
    """
    return _T.index_spec([]) == -1


def legacy_index_single_digit(d: int) -> bool:
    """
    pre: 0 <= d <= 9
    post: _
    """
    return _T.index_spec([str(d)]) == d


def legacy_index_multi_digit(ds: List[int]) -> bool:
    """
    pre: 2 <= len(ds) <= 4 and all(0 <= d <= 9 for d in ds)
    post: _
    """
    want = 0
    for d in ds:
        want = want * 10 + d
    return _T.index_spec([str(d) for d in ds]) == want


def legacy_anywhere_assembly(empties: List[bool]) -> bool:
    """
    pre: 1 <= len(empties) <= 5 and not empties[-1]
    post: _
    """
    # Legacy encoding (matching walks upwards): the reversed list holds the non-empty elements; an
    # element is flagged `anywhere` iff an empty element ('//') directly FOLLOWS it in the text, and
    # leading empty elements become one trailing ASTXpathAnywhereElement marker.
    flags = [True if emp else False for emp in empties]
    args = [(None, None, None) if emp else (f"f{k}", k, AwareASTNode) for k, emp in enumerate(flags)]
    got = _T.xpath(list(args))
    want: list = []
    for k, emp in enumerate(flags):
        if emp:
            continue
        follows = k + 1 < len(flags) and flags[k + 1]
        want.append(ASTXpathElement(AwareASTNode, f"f{k}", k, follows))
    want.reverse()
    leading = flags[0]
    if len(got) != len(want) + (1 if leading else 0):
        return False
    if leading and not isinstance(got[-1], ASTXpathAnywhereElement):
        return False
    return list(got[: len(want)]) == want


QUICK = ["legacy_index_no_digits", "legacy_index_single_digit", "legacy_index_multi_digit", "legacy_anywhere_assembly"]
SIGNATURES = {"legacy_index_multi_digit": "index-multi-digit"}
