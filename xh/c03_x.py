"""CrossHair harnesses for the id-uniqueness kernel of C03 (and its legacy twin, used by C18):
`_get_next_unique_id` against an arbitrary set of registered collision suffixes."""
from __future__ import annotations

from typing import List

import pyoak.legacy.node as LN
import pyoak.node as N

from xh.plant import maybe_plant

maybe_plant("C03")


def _mex(ks: List[int]) -> int:
    m = 1
    while m in ks:
        m += 1
    return m


def next_unique_id_is_least_free_suffix(ks: List[int], base_taken: bool) -> bool:
    """
    pre: len(ks) <= 3 and all(1 <= k <= 5 for k in ks)
    post: _
    """
    # the registry holds the base id (or not) and an ARBITRARY set of suffixed ids base_k
    # (gaps included): the id handed out is free, and it is the base or its least free suffix
    base = "ab"
    taken = {}
    if base_taken:
        taken[base] = 1
    for k in ks:
        taken[base + "_" + str(k)] = 1
    old = N.NODE_REGISTRY
    N.NODE_REGISTRY = taken
    try:
        r = N._get_next_unique_id(base)
    finally:
        N.NODE_REGISTRY = old
    if not base_taken:
        return r == base
    return r == base + "_" + str(_mex(ks)) and r not in taken


def legacy_next_unique_id_is_least_free_suffix(ks: List[int], base_taken: bool) -> bool:
    """
    pre: len(ks) <= 3 and all(1 <= k <= 5 for k in ks)
    post: _
    """
    base = "ab"
    taken = {}
    if base_taken:
        taken[base] = 1
    for k in ks:
        taken[base + "_" + str(k)] = 1
    old = LN.AwareASTNode._nodes
    LN.AwareASTNode._nodes = taken
    try:
        r = LN._get_next_unique_id(base)
    finally:
        LN.AwareASTNode._nodes = old
    if not base_taken:
        return r == base
    return r == base + "_" + str(_mex(ks)) and r not in taken


QUICK = ["next_unique_id_is_least_free_suffix", "legacy_next_unique_id_is_least_free_suffix"]
THOROUGH = QUICK  # (a wider variant, 4 suffixes up to 7, did not confirm within 120 s)
SIGNATURES = {n: f"x-counterexample:{n}" for n in THOROUGH}
