"""CrossHair harnesses for C15 (origin algebra) over unbounded symbolic integers.

Points are built by a consistent index -> (line, column) map with a symbolic line
width w >= 1 (DESIGN appendix A.6), so that equal indices carry equal line/column
and dataclass equality of hulls is meaningful.
"""
from __future__ import annotations

from pyoak.origin import CodeOrigin, CodePoint, CodeRange, MemoryTextSource, MultiOrigin, Source

from xh.plant import maybe_plant

maybe_plant("C15")


def _pt(i: int, w: int) -> CodePoint:
    return CodePoint(i, 1 + i // w, i % w)


def _rng(a: int, b: int, w: int) -> CodeRange:
    return CodeRange(_pt(a, w), _pt(b, w))


def point_valid_accepted(i: int, line: int, col: int) -> bool:
    """
    pre: i >= 0 and line >= 1 and col >= 0
    post: _
    """
    p = CodePoint(i, line, col)
    return p.index == i and p.line == line and p.column == col


def point_negative_index_rejected(i: int, line: int, col: int) -> bool:
    """
    pre: i < 0
    post: _
    """
    try:
        CodePoint(i, line, col)
    except ValueError:
        return True
    return False


def point_bad_line_or_column_rejected(i: int, line: int, col: int) -> bool:
    """
    pre: i >= 0 and -3 <= line <= 3 and -3 <= col <= 3 and (line < 1 or col < 0)
    post: _
    """
    # bounded: the error message renders the offending integer, which CrossHair realises
    try:
        CodePoint(i, line, col)
    except ValueError:
        return True
    return False


def range_ordered_accepted(a: int, b: int, w: int) -> bool:
    """
    pre: 0 <= a <= b and w >= 1
    post: _
    """
    r = CodeRange(_pt(a, w), _pt(b, w))
    return r.start.index == a and r.end.index == b


def range_reversed_rejected(a: int, b: int, w: int) -> bool:
    """
    pre: 0 <= b < a <= 6 and 1 <= w <= 3
    post: _
    """
    # bounded: the error message renders both code points (line / column realised)
    try:
        CodeRange(_pt(a, w), _pt(b, w))
    except ValueError:
        return True
    return False


def point_order(a: int, b: int, w: int) -> bool:
    """
    pre: a >= 0 and b >= 0 and w >= 1
    post: _
    """
    p, q = _pt(a, w), _pt(b, w)
    return ((p < q) == (a < b)) and ((p <= q) == (a <= b)) and ((p > q) == (a > b)) and ((p >= q) == (a >= b))


def contains_is_interval_inclusion(a: int, b: int, c: int, d: int, w: int) -> bool:
    """
    pre: 0 <= a <= b and 0 <= c <= d and w >= 1
    post: _
    """
    r1, r2 = _rng(a, b, w), _rng(c, d, w)
    return (r2 in r1) == (a <= c and d <= b)


def contains_partial_order(a: int, b: int, c: int, d: int, e: int, f: int, w: int) -> bool:
    """
    pre: 0 <= a <= b and 0 <= c <= d and 0 <= e <= f and w >= 1
    post: _
    """
    r1, r2, r3 = _rng(a, b, w), _rng(c, d, w), _rng(e, f, w)
    if not (r1 in r1):
        return False
    if (r2 in r1) and (r3 in r2) and not (r3 in r1):
        return False
    if (r2 in r1) and (r1 in r2) and not (a == c and b == d and r1 == r2):
        return False
    return True


def overlaps_symmetric_and_touching(a: int, b: int, c: int, d: int, w: int) -> bool:
    """
    pre: 0 <= a <= b and 0 <= c <= d and w >= 1
    post: _
    """
    r1, r2 = _rng(a, b, w), _rng(c, d, w)
    o12, o21 = r1.overlaps(r2), r2.overlaps(r1)
    if o12 != o21:
        return False
    # overlap means the index intervals intersect or touch
    return o12 == (c <= b and a <= d)


def before_relations(a: int, b: int, c: int, d: int, w: int) -> bool:
    """
    pre: 0 <= a <= b and 0 <= c <= d and w >= 1
    post: _
    """
    r1, r2 = _rng(a, b, w), _rng(c, d, w)
    return ((r1 < r2) == (b < c)) and ((r1 <= r2) == (b <= c))


def hull_contains_commutes_idempotent(a: int, b: int, c: int, d: int, w: int) -> bool:
    """
    pre: 0 <= a <= b and 0 <= c <= d and w >= 1
    post: _
    """
    r1, r2 = _rng(a, b, w), _rng(c, d, w)
    h = r1 + r2
    if not ((r1 in h) and (r2 in h)):
        return False
    if h.start.index != min(a, c) or h.end.index != max(b, d):
        return False
    if h != r2 + r1:
        return False
    return (r1 + r1) == r1


def hull_associative(a: int, b: int, c: int, d: int, e: int, f: int, w: int) -> bool:
    """
    pre: 0 <= a <= b and 0 <= c <= d and 0 <= e <= f and w >= 1
    post: _
    """
    r1, r2, r3 = _rng(a, b, w), _rng(c, d, w), _rng(e, f, w)
    return ((r1 + r2) + r3) == (r1 + (r2 + r3))


def code_origin_add_slice(text: str, a: int, b: int, c: int, d: int) -> bool:
    """
    pre: len(text) <= 3
    pre: 0 <= a <= b <= 4 and 0 <= c <= d <= 4
    post: _
    """
    Source.clear_registry()
    src = MemoryTextSource(_raw=text, source_uri="s")
    o1 = CodeOrigin(src, _rng(a, b, 80))
    o2 = CodeOrigin(src, _rng(c, d, 80))
    r = o1 + o2
    if c <= b and a <= d:
        lo, hi = min(a, c), max(b, d)
        return (
            type(r) is CodeOrigin
            and r.source is src
            and r.position.start.index == lo
            and r.position.end.index == hi
            and r.get_raw() == text[lo:hi]
        )
    return type(r) is MultiOrigin and list(r.origins) == [o1, o2] and r.origins[0] is o1 and r.origins[1] is o2 and r.source is src


def code_origin_get_raw(text: str, a: int, b: int) -> bool:
    """
    pre: len(text) <= 4
    pre: 0 <= a <= b <= 6
    post: _
    """
    Source.clear_registry()
    src = MemoryTextSource(_raw=text, source_uri="s")
    return CodeOrigin(src, _rng(a, b, 80)).get_raw() == text[a:b]


def point_order_free_linecol(a: int, la: int, ca: int, b: int, lb: int, cb: int) -> bool:
    """
    pre: a >= 0 and b >= 0 and la >= 1 and lb >= 1 and ca >= 0 and cb >= 0
    post: _
    """
    # ordered by index: line and column are free (two producers may spell the position after a
    # newline as (3, L1, C3) and (3, L2, C0))
    p, q = CodePoint(a, la, ca), CodePoint(b, lb, cb)
    return ((p < q) == (a < b)) and ((p <= q) == (a <= b)) and ((p > q) == (a > b)) and ((p >= q) == (a >= b))


def range_relations_free_linecol(a: int, b: int, c: int, d: int, l1: int, l2: int, c1: int, c2: int) -> bool:
    """
    pre: 0 <= a <= b and 0 <= c <= d and l1 >= 1 and l2 >= 1 and c1 >= 0 and c2 >= 0
    post: _
    """
    # the two ranges spell their lines / columns independently of each other
    r1 = CodeRange(CodePoint(a, l1, c1), CodePoint(b, l1 + 1, c1))
    r2 = CodeRange(CodePoint(c, l2, c2), CodePoint(d, l2 + 2, c2 + 1))
    if (r2 in r1) != (a <= c and d <= b) or (r1 in r2) != (c <= a and b <= d):
        return False
    if r1.overlaps(r2) != (c <= b and a <= d) or r2.overlaps(r1) != (c <= b and a <= d):
        return False
    if (r1 < r2) != (b < c) or (r1 <= r2) != (b <= c):
        return False
    h = r1 + r2
    return h.start.index == min(a, c) and h.end.index == max(b, d) and (r1 in h) and (r2 in h)


def code_origin_add_free_linecol(a: int, b: int, c: int, d: int, l1: int, l2: int) -> bool:
    """
    pre: 0 <= a <= b <= 4 and 0 <= c <= d <= 4 and 1 <= l1 <= 3 and 1 <= l2 <= 3
    post: _
    """
    Source.clear_registry()
    src = MemoryTextSource(_raw="abcd", source_uri="s")
    o1 = CodeOrigin(src, CodeRange(CodePoint(a, l1, 0), CodePoint(b, l1, b)))
    o2 = CodeOrigin(src, CodeRange(CodePoint(c, l2, 1), CodePoint(d, l2 + 1, 0)))
    r = o1 + o2
    if c <= b and a <= d:
        return type(r) is CodeOrigin and r.position.start.index == min(a, c) and r.position.end.index == max(b, d) and r.get_raw() == "abcd"[min(a, c) : max(b, d)]
    return type(r) is MultiOrigin and r.origins[0] is o1 and r.origins[1] is o2


QUICK = [
    "point_valid_accepted", "point_negative_index_rejected", "point_bad_line_or_column_rejected",
    "range_ordered_accepted", "range_reversed_rejected", "point_order", "contains_is_interval_inclusion", "contains_partial_order",
    "overlaps_symmetric_and_touching", "before_relations", "hull_contains_commutes_idempotent", "hull_associative",
    "code_origin_add_slice", "code_origin_get_raw", "point_order_free_linecol", "range_relations_free_linecol", "code_origin_add_free_linecol",
]


def code_origin_add_slice_wide(text: str, a: int, b: int, c: int, d: int) -> bool:
    """
    pre: len(text) <= 5
    pre: 0 <= a <= b <= 6 and 0 <= c <= d <= 6
    post: _
    """
    return code_origin_add_slice.__wrapped__(text, a, b, c, d) if hasattr(code_origin_add_slice, "__wrapped__") else _slice_law(text, a, b, c, d)


def _slice_law(text: str, a: int, b: int, c: int, d: int) -> bool:
    Source.clear_registry()
    src = MemoryTextSource(_raw=text, source_uri="s")
    o1 = CodeOrigin(src, _rng(a, b, 80))
    o2 = CodeOrigin(src, _rng(c, d, 80))
    r = o1 + o2
    if c <= b and a <= d:
        lo, hi = min(a, c), max(b, d)
        return type(r) is CodeOrigin and r.source is src and r.position.start.index == lo and r.position.end.index == hi and r.get_raw() == text[lo:hi]
    return type(r) is MultiOrigin and list(r.origins) == [o1, o2] and r.origins[0] is o1 and r.origins[1] is o2 and r.source is src


def range_relations_with_equal_and_empty_ranges(a: int, b: int, w: int) -> bool:
    """
    pre: 0 <= a <= b and w >= 1
    post: _
    """
    # boundary cases: a range against itself, against its own empty start / end range
    r = _rng(a, b, w)
    s, t = _rng(a, a, w), _rng(b, b, w)
    return (
        r.overlaps(r) and (r in r) and not (r < r) and ((r <= r) == (a == b))
        and (s in r) and (t in r) and r.overlaps(s) and s.overlaps(r) and r.overlaps(t) and t.overlaps(r)
        and (s <= r) and (r <= t) and ((s < r) == False) and ((r < t) == False)  # noqa: E712
        and (r + s) == r and (t + r) == r
    )


THOROUGH = QUICK + ["code_origin_add_slice_wide", "range_relations_with_equal_and_empty_ranges"]
