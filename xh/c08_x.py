"""CrossHair harnesses for the pattern matcher kernels (C08)."""
from __future__ import annotations

from typing import Tuple

from pyoak.match.pattern import AnyMatcher, RegexMatcher, SequenceMatcher, ValueMatcher, VarMatcher

from xh.plant import maybe_plant

maybe_plant("C08")


def _fixed(k: int):
    return tuple(ValueMatcher(value=i) for i in range(k))


def seq_exact_length(k: int, xs: Tuple[int, ...]) -> bool:
    """
    pre: 1 <= k <= 3 and len(xs) <= 5
    post: _
    """
    m = SequenceMatcher(matchers=_fixed(k))
    ok, caps = m.match(xs)
    want = len(xs) == k and all(xs[i] == i for i in range(k))
    return ok == want and caps == {}


def seq_tail_length_rule(k: int, xs: Tuple[int, ...]) -> bool:
    """
    pre: 1 <= k <= 3 and len(xs) <= 5
    post: _
    """
    m = SequenceMatcher(matchers=_fixed(k) + (AnyMatcher(),))
    ok, caps = m.match(xs)
    want = len(xs) >= k and all(xs[i] == i for i in range(k))
    return ok == want and caps == {}


def seq_tail_capture(k: int, xs: Tuple[int, ...]) -> bool:
    """
    pre: 0 <= k <= 2 and len(xs) <= 4
    post: _
    """
    m = SequenceMatcher(matchers=_fixed(k) + (AnyMatcher(name="rest"),))
    ok, caps = m.match(xs)
    want = len(xs) >= k and all(xs[i] == i for i in range(k))
    if ok != want:
        return False
    if not ok:
        return caps == {}
    return list(caps) == ["rest"] and tuple(caps["rest"]) == tuple(xs[k:])


def seq_element_capture(xs: Tuple[int, ...]) -> bool:
    """
    pre: len(xs) <= 4
    post: _
    """
    m = SequenceMatcher(matchers=(AnyMatcher(name="a"), ValueMatcher(value=7, name="b")))
    ok, caps = m.match(xs)
    want = len(xs) == 2 and xs[1] == 7
    if ok != want:
        return False
    return caps == ({"a": xs[0], "b": xs[1]} if ok else {})


def seq_rejects_non_sequence(x: int) -> bool:
    """
    post: _
    """
    return SequenceMatcher(matchers=(AnyMatcher(),)).match(x) == (False, {})


def value_matcher_equality(a: int, b: int, s: str, t: str) -> bool:
    """
    pre: len(s) <= 3 and len(t) <= 3
    post: _
    """
    r1 = ValueMatcher(value=a, name="n").match(b)
    r2 = ValueMatcher(value=s).match(t)
    return r1 == ((True, {"n": b}) if a == b else (False, {})) and r2 == ((s == t), {})


def var_matcher_equality(a: int, b: int) -> bool:
    """
    post: _
    """
    ok, caps = VarMatcher(var_name="x").match(b, {"x": a})
    return ok == (a == b) and caps == {}


def regex_literal_anchored_at_start(s: str) -> bool:
    """
    pre: len(s) <= 4
    post: _
    """
    ok, caps = RegexMatcher("ab").match(s)
    return ok == s.startswith("ab") and caps == {}


def regex_digits_of_int(n: int) -> bool:
    """
    pre: 0 <= n <= 999
    post: _
    """
    # a quoted regex is matched at the start of str(value)
    ok, _ = RegexMatcher("1").match(n)
    return ok == str(n).startswith("1")


QUICK = [
    "seq_exact_length", "seq_tail_length_rule", "seq_tail_capture", "seq_element_capture", "seq_rejects_non_sequence",
    "value_matcher_equality", "var_matcher_equality", "regex_literal_anchored_at_start", "regex_digits_of_int",
]
SIGNATURES = {"seq_tail_length_rule": "tail-length-off-by-one", "seq_tail_capture": "tail-length-off-by-one"}
