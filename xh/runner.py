"""Engine X: run CrossHair on PEP-316 harness functions, one process per obligation.

A harness function returns True when the property holds for its (symbolic)
arguments and carries ``post: _``.  For every obligation a reachability twin
(``post: not _`` over the same body and precondition) is generated; it must come
back *violated*, otherwise the obligation's precondition is vacuous or every
path timed out and the obligation is reported inconclusive.
"""
from __future__ import annotations

import importlib
import inspect
import os
import re
import subprocess
import sys
import textwrap
import time
from concurrent.futures import ThreadPoolExecutor
from typing import Any

from vcheck.core import VERIF, Obligation

GEN_DIR = os.path.join(VERIF, "xh", "_gen")


def _def_line(path: str, fname: str) -> int:
    with open(path) as f:
        for n, line in enumerate(f, 1):
            if re.match(rf"def {re.escape(fname)}\(", line):
                return n + 1  # a line inside the def
    raise KeyError(fname)


def _run_crosshair(path: str, line: int, timeout: float, extra_path: str) -> tuple[str, float]:
    env = dict(os.environ)
    env["PYTHONPATH"] = f"{os.environ.get('VCHECK_REPO', '/repo')}/src:{VERIF}:{extra_path}"
    env["PYTHONHASHSEED"] = "0"
    t0 = time.time()
    try:
        p = subprocess.run(
            [sys.executable, "-m", "crosshair", "check", "--report_all", "--per_condition_timeout", str(timeout), f"{path}:{line}"],
            capture_output=True, text=True, env=env, cwd=os.path.dirname(path), timeout=timeout * 3 + 60,
        )
        out = (p.stdout or "") + (p.stderr or "")
    except subprocess.TimeoutExpired:
        out = "info: Not confirmed. (process timeout)"
    return out, time.time() - t0


def _classify(out: str) -> tuple[str, str]:
    if "Confirmed over all paths" in out:
        return "confirmed", ""
    m = re.search(r"error: (.*)", out)
    if m:
        return "counterexample", m.group(1).strip()
    if "Unable to meet precondition" in out:
        return "unmet-precondition", out.strip()[-300:]
    if "Not confirmed" in out:
        return "not-confirmed", out.strip()[-300:]
    return "unknown", out.strip()[-600:]


def make_twins(modname: str, names: list[str]) -> str:
    """Write a module with a reachability twin for each harness function: a textual
    copy of the harness module plus, per obligation, a copy of the function whose
    postcondition is negated."""
    mod = importlib.import_module(modname)
    os.makedirs(GEN_DIR, exist_ok=True)
    src_path = inspect.getsourcefile(mod)
    assert src_path
    with open(src_path) as f:
        lines = [f.read(), "", "# ---- reachability twins (generated) ----"]
    for n in names:
        fn_src = inspect.getsource(getattr(mod, n))
        fn_src = re.sub(rf"^def {re.escape(n)}\(", f"def {n}__reach(", fn_src, count=1, flags=re.M)
        assert "post: _" in fn_src, f"{n} lacks 'post: _'"
        fn_src = fn_src.replace("post: _", "post: not _")
        lines.append(fn_src)
    path = os.path.join(GEN_DIR, f"{modname.replace('.', '_')}_twins.py")
    with open(path, "w") as f:
        f.write("\n".join(lines))
    return path


def run_obligations(
    modname: str,
    names: list[str],
    timeout: float,
    workers: int = 16,
    twins: bool = True,
    signatures: dict[str, str] | None = None,
) -> list[Obligation]:
    """names: harness function names in module `modname` (importable from /verif)."""
    mod = importlib.import_module(modname)
    path = inspect.getsourcefile(mod)
    assert path
    twin_path = make_twins(modname, names) if twins else None
    jobs = []
    for n in names:
        jobs.append((n, path, _def_line(path, n), False))
        if twin_path:
            jobs.append((n, twin_path, _def_line(twin_path, f"{n}__reach"), True))

    def work(job):
        n, p, line, is_twin = job
        out, secs = _run_crosshair(p, line, timeout, os.path.dirname(path))
        return n, is_twin, _classify(out), secs

    res: dict[str, dict[str, Any]] = {n: {} for n in names}
    with ThreadPoolExecutor(max_workers=max(1, workers)) as ex:
        for n, is_twin, (kind, text), secs in ex.map(work, jobs):
            res[n]["twin" if is_twin else "main"] = (kind, text, secs)

    out: list[Obligation] = []
    for n in names:
        kind, text, secs = res[n]["main"]
        tkind, ttext, tsecs = res[n].get("twin", ("counterexample", "", 0.0))
        o = Obligation(name=f"X:{modname.split('.')[-1]}.{n}", engine="X", status="inconclusive", seconds=secs + tsecs, solver="crosshair 0.0.110 (z3)", queries=2 if twins else 1)
        if kind == "confirmed":
            if tkind == "counterexample":
                o.status = "discharged"
                o.detail = {"crosshair": "Confirmed over all paths", "reachability_twin": ttext[:200]}
            else:
                o.status = "inconclusive"
                o.detail = {"reason": "reachability twin not violated (vacuous precondition or all paths timed out)", "twin": tkind, "twin_text": ttext}
        elif kind == "counterexample":
            o.status = "violated"
            o.signature = (signatures or {}).get(n, f"x-counterexample:{n}")
            o.detail = {"crosshair": text}
            call = _extract_call(text, n)
            o.replay = {"module": modname, "function": n, "call": call}
        else:
            o.detail = {"crosshair": kind, "text": text}
        out.append(o)
    return out


def _extract_call(text: str, fname: str) -> str | None:
    i = text.find(f"{fname}(")
    if i < 0:
        return None
    depth = 0
    for j in range(i + len(fname), len(text)):
        if text[j] == "(":
            depth += 1
        elif text[j] == ")":
            depth -= 1
            if depth == 0:
                return text[i : j + 1]
    return None


def replay_call(payload: dict[str, Any]) -> tuple[bool, str]:
    """Re-run an X counterexample on plain values: True when the harness function
    returns False or raises."""
    call = payload.get("call")
    if not call:
        return False, "no call recorded"
    mod = importlib.import_module(payload["module"])
    ns = dict(vars(mod))
    ns.setdefault("inf", float("inf"))
    ns.setdefault("nan", float("nan"))
    try:
        r = eval(call, ns)  # noqa: S307 - our own harness call text
    except Exception as ex:  # noqa: BLE001
        import traceback

        frames = traceback.extract_tb(ex.__traceback__)
        in_harness = bool(frames) and "/xh/" in frames[-1].filename
        if isinstance(ex, (TypeError, AttributeError)) or (in_harness and isinstance(ex, (ValueError, IndexError, KeyError))):
            # the kernels call private helpers with hand-made arguments: an exception of this kind
            # means the helper's interface changed (a refactoring), which says nothing about the
            # property -- inconclusive (exit 3), never a VIOLATION; the public behaviour is judged by
            # the path explorer's half of the check
            return False, f"replay: {call} raised {type(ex).__name__}: {ex} -- kernel interface changed, inconclusive"
        return True, f"replay: {call} raised {type(ex).__name__}: {ex}"
    if r is False:
        return True, f"replay: {call} returned False"
    return False, f"replay: {call} returned {r!r}"
