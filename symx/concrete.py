"""ConcreteEngine -- replays one path of a symx harness with plain Python values.

Used for "replay before reporting": the z3 model of a violating path is turned
into a name -> value table; the same harness function is run again, in a fresh
interpreter, with ``bool()`` / ``int()`` / ``choice()`` / ``flag()`` returning
ordinary Python ``bool`` / ``int`` objects taken from that table.  No z3, no
proxies: what runs is the real pyoak code on ordinary values.
"""
from __future__ import annotations

from typing import Any

from .engine import ExploreResult, PathAbort, Violation


class ConcreteEngine:
    concrete = True

    def __init__(self, values: dict[str, Any]):
        self.values = values
        self._fresh = 0
        self.path_log: list[str] = []
        self.res = ExploreResult()

    def _name(self, name: str) -> str:
        self._fresh += 1
        return f"{name}#{self._fresh}"

    def bool(self, name: str = "b") -> bool:
        v = self.values.get(self._name(name), False)
        return True if v in (True, "True") else False

    def int(self, name: str = "i", lo: int | None = None, hi: int | None = None) -> int:
        v = self.values.get(self._name(name))
        if v is None:
            v = lo if lo is not None else (hi if hi is not None else 0)
        return int(v)

    def choice(self, n: int, name: str = "c") -> int:
        if n <= 0:
            raise PathAbort()
        v = self.values.get(self._name(name))
        if n == 1:
            return 0
        return int(v) if v is not None else 0

    def pick(self, seq: Any, name: str = "pick") -> Any:
        seq = list(seq)
        return seq[self.choice(len(seq), name)]

    def flag(self, name: str = "f") -> bool:
        v = self.values.get(self._name(name), False)
        return True if v in (True, "True") else False

    def assume(self, cond: Any) -> None:
        if not cond:
            raise PathAbort()

    def note(self, *what: Any) -> None:
        self.path_log.append(" ".join(str(w) for w in what))

    def count(self, key: str, n: int = 1) -> None:
        pass

    def distinct(self, key: Any) -> None:
        pass

    def fail(self, signature: str, **detail: Any) -> None:
        raise Violation(signature, detail)
