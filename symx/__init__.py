from .engine import Engine, Violation, PathAbort, SymBool, SymInt, ExploreResult, HarnessError  # noqa: F401
