"""symx -- a small path-forking symbolic executor on top of the z3 Python API.

The code under test runs natively.  Inputs are proxies (SymBool / SymInt) that
wrap z3 terms.  Whenever the *real code* branches on a proxy (``__bool__``,
``__index__`` ...) the engine asks z3 which outcomes are feasible under the
current path condition, follows one, records the decision and -- after the run --
backtracks depth first to the last decision with an unexplored feasible
alternative and re-executes the harness.  The harness is *decided* when the
decision tree is exhausted.  Variables never consulted by the code stay
unconstrained, so one path stands for all their values.

Determinism requirement: a harness must make the same decisions in the same
order when re-run with the same decision prefix (harnesses reset all pyoak
registries at the start of every path).
"""
from __future__ import annotations

import signal
import time
from dataclasses import dataclass, field
from typing import Any, Callable

import z3


KEEP_PER_SIGNATURE = 3


class PathAbort(BaseException):
    """Raised by assume(False): the path is outside the harness precondition."""


class Violation(BaseException):
    """Raised by Engine.fail(): the property is violated on this path."""

    def __init__(self, signature: str, detail: dict[str, Any]):
        super().__init__(signature)
        self.signature = signature
        self.detail = detail


class HarnessError(Exception):
    """Misuse of a proxy or an internal inconsistency: never a verdict."""


class _PathTimeout(BaseException):
    pass


def exception_site(ex: BaseException) -> str:
    """Innermost frame inside pyoak (or, failing that, the innermost frame) of a traceback."""
    import traceback

    frames = traceback.extract_tb(ex.__traceback__)
    for fr in reversed(frames):
        if "/pyoak/" in fr.filename:
            return f"{fr.filename.split('/pyoak/')[-1]}:{fr.name}"
    return f"{frames[-1].filename.split('/')[-1]}:{frames[-1].name}" if frames else "?"


def unexpected_signature(ex: BaseException) -> str:
    return f"unexpected-exception:{type(ex).__name__}:{exception_site(ex)}"


@dataclass
class _Decision:
    options: list[Any]  # feasible concrete outcomes, in exploration order
    taken: int = 0  # index into options
    label: str = ""
    expr: Any = None  # z3 term decided on (None for pure selectors)
    kind: str = "branch"  # branch | value | selector

    def constraint(self) -> Any:
        val = self.options[self.taken]
        if self.kind == "branch":
            return self.expr if val else z3.Not(self.expr)
        if self.kind == "value":
            return self.expr == val
        return None


@dataclass
class ExploreResult:
    paths: int = 0
    completed: int = 0  # paths that reached the end of the harness
    aborted: int = 0  # paths cut by assume
    timeouts: int = 0  # paths cut by the per-path watchdog (inconclusive)
    exhausted: bool = False
    solver_checks: int = 0
    solver_s: float = 0.0
    wall_s: float = 0.0
    max_depth: int = 0
    violations: list[dict[str, Any]] = field(default_factory=list)  # at most KEEP_PER_SIGNATURE full records per signature
    violation_counts: dict[str, int] = field(default_factory=dict)  # every violating path, by signature
    timeout_scenarios: list[Any] = field(default_factory=list)
    samples: list[Any] = field(default_factory=list)
    counters: dict[str, int] = field(default_factory=dict)
    distinct: set = field(default_factory=set)

    def merge(self, o: "ExploreResult") -> None:
        self.paths += o.paths
        self.completed += o.completed
        self.aborted += o.aborted
        self.timeouts += o.timeouts
        self.solver_checks += o.solver_checks
        self.solver_s += o.solver_s
        self.max_depth = max(self.max_depth, o.max_depth)
        self.violations.extend(o.violations)
        for k, v in o.violation_counts.items():
            self.violation_counts[k] = self.violation_counts.get(k, 0) + v
        self.timeout_scenarios.extend(o.timeout_scenarios[:3])
        if len(self.samples) < 12:
            self.samples.extend(o.samples[: 12 - len(self.samples)])
        for k, v in o.counters.items():
            self.counters[k] = self.counters.get(k, 0) + v
        self.distinct |= o.distinct


class SymBool:
    __slots__ = ("eng", "expr")

    def __init__(self, eng: "Engine", expr: z3.BoolRef):
        self.eng = eng
        self.expr = expr

    def __bool__(self) -> bool:
        return self.eng.branch(self.expr)

    def __and__(self, o: Any) -> "SymBool":
        return SymBool(self.eng, z3.And(self.expr, _b(o)))

    __rand__ = __and__

    def __or__(self, o: Any) -> "SymBool":
        return SymBool(self.eng, z3.Or(self.expr, _b(o)))

    __ror__ = __or__

    def __invert__(self) -> "SymBool":
        return SymBool(self.eng, z3.Not(self.expr))

    def __eq__(self, o: Any):  # type: ignore[override]
        return SymBool(self.eng, self.expr == _b(o))

    def __ne__(self, o: Any):  # type: ignore[override]
        return SymBool(self.eng, self.expr != _b(o))

    def __hash__(self) -> int:
        raise HarnessError("SymBool used as a hash key; concretise it first")

    def __repr__(self) -> str:
        return f"SymBool({self.expr})"

    def __str__(self) -> str:
        raise HarnessError("SymBool rendered as text; concretise it first")


def _b(o: Any) -> Any:
    if isinstance(o, SymBool):
        return o.expr
    if isinstance(o, bool):
        return z3.BoolVal(o)
    raise HarnessError(f"cannot mix SymBool with {type(o)}")


def _i(o: Any) -> Any:
    if isinstance(o, SymInt):
        return o.expr
    if isinstance(o, bool):
        raise HarnessError("bool mixed with SymInt")
    if isinstance(o, int):
        return z3.IntVal(o)
    raise HarnessError(f"cannot mix SymInt with {type(o)}")


class SymInt:
    __slots__ = ("eng", "expr")

    def __init__(self, eng: "Engine", expr: z3.ArithRef):
        self.eng = eng
        self.expr = expr

    def _cmp(self, o: Any, op: Callable[[Any, Any], Any]) -> SymBool:
        return SymBool(self.eng, op(self.expr, _i(o)))

    def __lt__(self, o: Any) -> SymBool:
        return self._cmp(o, lambda a, b: a < b)

    def __le__(self, o: Any) -> SymBool:
        return self._cmp(o, lambda a, b: a <= b)

    def __gt__(self, o: Any) -> SymBool:
        return self._cmp(o, lambda a, b: a > b)

    def __ge__(self, o: Any) -> SymBool:
        return self._cmp(o, lambda a, b: a >= b)

    def __eq__(self, o: Any):  # type: ignore[override]
        if not isinstance(o, (int, SymInt)) or isinstance(o, bool):
            return False
        return self._cmp(o, lambda a, b: a == b)

    def __ne__(self, o: Any):  # type: ignore[override]
        if not isinstance(o, (int, SymInt)) or isinstance(o, bool):
            return True
        return self._cmp(o, lambda a, b: a != b)

    def __add__(self, o: Any) -> "SymInt":
        return SymInt(self.eng, self.expr + _i(o))

    __radd__ = __add__

    def __sub__(self, o: Any) -> "SymInt":
        return SymInt(self.eng, self.expr - _i(o))

    def __rsub__(self, o: Any) -> "SymInt":
        return SymInt(self.eng, _i(o) - self.expr)

    def __neg__(self) -> "SymInt":
        return SymInt(self.eng, -self.expr)

    def __index__(self) -> int:
        return self.eng.concretize(self.expr)

    __int__ = __index__

    def __bool__(self) -> bool:
        return self.eng.branch(self.expr != 0)

    def __hash__(self) -> int:
        return hash(self.eng.concretize(self.expr))

    def __repr__(self) -> str:
        return f"SymInt({self.expr})"

    def __str__(self) -> str:
        return str(self.eng.concretize(self.expr))

    def __format__(self, spec: str) -> str:
        return format(self.eng.concretize(self.expr), spec)


class Engine:
    """Depth-first exploration of the decision tree of one harness.

    The solver keeps one scope per decision of the current path, so re-executing
    the common prefix after backtracking costs no solver work: while the harness
    replays the prefix, decisions are answered from the stack and assertions are
    skipped (they are still in the solver, in the scope they were made in).
    """

    concrete = False

    def __init__(self, per_path_timeout: float = 5.0, max_concretize: int = 64):
        self.solver = z3.Solver()
        self.per_path_timeout = per_path_timeout
        self.max_concretize = max_concretize
        self._stack: list[_Decision] = []
        self._decided: dict[int, Any] = {}
        self._selectors: dict[str, Any] = {}
        self._pos = 0
        self._fresh = 0
        self.res = ExploreResult()
        self.path_log: list[str] = []  # harness notes for this path (scenario description)

    # ------------------------------------------------------------------ vars
    def _name(self, name: str) -> str:
        self._fresh += 1
        return f"{name}#{self._fresh}"

    def _replaying(self) -> bool:
        return self._pos < len(self._stack)

    def _add(self, *constraints: Any) -> None:
        if not self._replaying():
            self.solver.add(*constraints)

    def bool(self, name: str = "b") -> SymBool:
        """A lazy boolean: stays symbolic until the code under test branches on it."""
        return SymBool(self, z3.Bool(self._name(name)))

    def int(self, name: str = "i", lo: int | None = None, hi: int | None = None) -> SymInt:
        v = z3.Int(self._name(name))
        if lo is not None:
            self._add(v >= lo)
        if hi is not None:
            self._add(v <= hi)
        return SymInt(self, v)

    def choice(self, n: int, name: str = "c") -> int:
        """A selector: a fresh integer in [0, n) concretised right away.  The variable is
        constrained by nothing but its range, so every value is feasible and no solver
        query is needed; the decision is recorded like any other."""
        if n <= 0:
            raise PathAbort()
        nm = self._name(name)
        if n == 1:
            self._selectors[nm] = 0
            return 0
        if self._replaying():
            d = self._stack[self._pos]
            val = d.options[d.taken]
        else:
            d = _Decision(options=list(range(n)), label=name, kind="selector")
            self._stack.append(d)
            self.solver.push()
            val = 0
        self._pos += 1
        self._selectors[nm] = val
        return val

    def pick(self, seq: Any, name: str = "pick") -> Any:
        seq = list(seq)
        return seq[self.choice(len(seq), name)]

    def flag(self, name: str = "f") -> bool:
        """A selector boolean, concretised right away to the real singletons."""
        nm = self._name(name)
        if self._replaying():
            d = self._stack[self._pos]
            val = d.options[d.taken]
        else:
            d = _Decision(options=[True, False], label=name, kind="selector")
            self._stack.append(d)
            self.solver.push()
            val = True
        self._pos += 1
        self._selectors[nm] = val
        return val

    # ------------------------------------------------------------- decisions
    def _check(self, *assumptions: Any) -> Any:
        t0 = time.perf_counter()
        r = self.solver.check(*assumptions)
        self.res.solver_s += time.perf_counter() - t0
        self.res.solver_checks += 1
        if r == z3.unknown:
            raise HarnessError(f"z3 returned unknown: {self.solver.reason_unknown()}")
        return r

    def branch(self, expr: Any, label: str = "") -> bool:
        key = expr.get_id()
        hit = self._decided.get(key)
        if hit is not None:
            # same term already decided on this path: its value is implied
            return hit[0]
        val = self._branch(expr, label)
        self._decided[key] = (val, expr)  # keep the term alive so ids stay unique
        return val

    def _branch(self, expr: Any, label: str = "") -> bool:
        if self._replaying():
            d = self._stack[self._pos]
            self._pos += 1
            return d.options[d.taken]
        opts = []
        if self._check(expr) == z3.sat:
            opts.append(True)
        if self._check(z3.Not(expr)) == z3.sat:
            opts.append(False)
        if not opts:
            raise HarnessError("infeasible path condition reached")
        d = _Decision(options=opts, label=label or str(expr)[:40], expr=expr, kind="branch")
        self._stack.append(d)
        self._pos += 1
        self.solver.push()
        self.solver.add(d.constraint())
        return opts[0]

    def concretize(self, expr: Any, label: str = "") -> int:
        if z3.is_int_value(expr):
            return expr.as_long()
        if self._replaying():
            d = self._stack[self._pos]
            self._pos += 1
            return d.options[d.taken]
        # enumerate all feasible values (bounded)
        opts: list[int] = []
        self.solver.push()
        try:
            while len(opts) <= self.max_concretize:
                if self._check() != z3.sat:
                    break
                v = self.solver.model().eval(expr, model_completion=True).as_long()
                opts.append(v)
                self.solver.add(expr != v)
            else:
                raise HarnessError(
                    f"concretisation of {expr} has more than {self.max_concretize} values"
                )
        finally:
            self.solver.pop()
        if not opts:
            raise HarnessError("infeasible path condition reached")
        opts.sort()
        d = _Decision(options=opts, label=label or str(expr)[:40], expr=expr, kind="value")
        self._stack.append(d)
        self._pos += 1
        self.solver.push()
        self.solver.add(d.constraint())
        return opts[0]

    def assume(self, cond: Any) -> None:
        if isinstance(cond, SymBool):
            if self._replaying():
                return
            self.solver.add(cond.expr)
            if self._check() != z3.sat:
                raise PathAbort()
        elif not cond:
            raise PathAbort()

    def note(self, *what: Any) -> None:
        self.path_log.append(" ".join(str(w) for w in what))

    def count(self, key: str, n: int = 1) -> None:
        self.res.counters[key] = self.res.counters.get(key, 0) + n

    def distinct(self, key: Any) -> None:
        self.res.distinct.add(key)

    def fail(self, signature: str, **detail: Any) -> None:
        raise Violation(signature, detail)

    def model_values(self) -> dict[str, Any]:
        out: dict[str, Any] = dict(self._selectors)
        if self._check() != z3.sat:
            return out
        m = self.solver.model()
        for d in m.decls():
            out[str(d)] = str(m[d])
        return out

    # ------------------------------------------------------------- exploring
    def _on_alarm(self, *_: Any) -> None:
        raise _PathTimeout()

    def explore(
        self,
        harness: Callable[["Engine"], Any],
        *,
        max_paths: int | None = None,
        time_budget: float | None = None,
        sample_every: int = 0,
        stop_on_violation: bool = False,
    ) -> ExploreResult:
        t_start = time.perf_counter()
        res = self.res
        self._stack = []
        use_alarm = self.per_path_timeout > 0
        if use_alarm:
            old = signal.signal(signal.SIGALRM, self._on_alarm)
        try:
            while True:
                if max_paths is not None and res.paths >= max_paths:
                    break
                if time_budget is not None and time.perf_counter() - t_start > time_budget:
                    break
                self._pos = 0
                self._fresh = 0
                self._decided = {}
                self._selectors = {}
                self.path_log = []
                res.paths += 1
                stop = False
                try:
                    if use_alarm:
                        signal.setitimer(signal.ITIMER_REAL, self.per_path_timeout, 0.25)
                    try:
                        out = harness(self)
                    finally:
                        if use_alarm:
                            signal.setitimer(signal.ITIMER_REAL, 0)
                    res.completed += 1
                    if out is not None and (
                        len(res.samples) < 3
                        or (sample_every and res.paths % sample_every == 0 and len(res.samples) < 12)
                    ):
                        res.samples.append(out)
                except PathAbort:
                    res.aborted += 1
                except _PathTimeout:
                    res.timeouts += 1
                    if len(res.timeout_scenarios) < 5:
                        res.timeout_scenarios.append(list(self.path_log))
                except (Violation, Exception) as v:  # noqa: BLE001
                    if not isinstance(v, Violation):
                        if isinstance(v, HarnessError):
                            raise
                        import traceback as _tb

                        if not any("/pyoak/" in fr.filename for fr in _tb.extract_tb(v.__traceback__)):
                            # raised by the harness's own code without the library on the stack: a defect of
                            # the machinery (never a verdict about the library)
                            raise HarnessError(f"exception in harness code: {type(v).__name__}: {v} at {exception_site(v)}") from v
                        # an exception escaping from the code under test where the harness expected
                        # none: reported like any other violation (and, like any other, only
                        # believed if it reproduces on replay with plain values)
                        v = Violation(unexpected_signature(v), {"exception": f"{type(v).__name__}: {v}"[:400], "where": exception_site(v), "notes": list(self.path_log)[-6:]})
                    res.completed += 1
                    # a path cut short while still replaying its prefix has decisions
                    # (and solver scopes) beyond the point reached: drop them first
                    self._truncate()
                    seen = res.violation_counts.get(v.signature, 0)
                    res.violation_counts[v.signature] = seen + 1
                    if seen < KEEP_PER_SIGNATURE:
                        # full records (scenario, z3 model) only for the first few paths of a
                        # signature: a change that breaks every path must not exhaust the memory
                        res.violations.append(
                            {
                                "signature": v.signature,
                                "detail": v.detail,
                                "values": self.model_values(),
                                "decisions": [(d.label, d.options[d.taken]) for d in self._stack],
                            }
                        )
                    stop = stop_on_violation
                res.max_depth = max(res.max_depth, self._pos)
                self._truncate()
                if stop:
                    break
                # backtrack to the last decision with an unexplored alternative
                while self._stack and self._stack[-1].taken + 1 >= len(self._stack[-1].options):
                    self._stack.pop()
                    self.solver.pop()
                if not self._stack:
                    res.exhausted = True
                    break
                d = self._stack[-1]
                d.taken += 1
                self.solver.pop()
                self.solver.push()
                c = d.constraint()
                if c is not None:
                    self.solver.add(c)
        finally:
            if use_alarm:
                signal.setitimer(signal.ITIMER_REAL, 0)
                signal.signal(signal.SIGALRM, old)
        res.wall_s = time.perf_counter() - t_start
        return res

    def _truncate(self) -> None:
        while len(self._stack) > self._pos:
            self._stack.pop()
            self.solver.pop()
